#!/bin/bash
# offline setup: icontract beside the repository's interpreter (from the local wheelhouse), output dirs
cd "$(dirname "$0")" || exit 2
mkdir -p evidence replays .work
test -x /venv/bin/python || { echo "missing /venv/bin/python"; exit 1; }
if [ ! -d .deps/icontract ]; then
  /venv/bin/python -m pip install -q --no-index --find-links /opt/veriftools/wheels --target .deps icontract || echo "warning: icontract not installed (class-invariant monitors will report inconclusive)"
fi
/venv/bin/python -c "import numba, numpy, pandas, polars, pyarrow; print('ok', numba.__version__, numpy.__version__, pandas.__version__)"
