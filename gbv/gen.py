"""Logical datasets and how they are poured into containers.

A *logical* dataset is made of plain Python scalars (None = null) so that the
reference model shares no dtype / container logic with the library.  Specs are
JSON-serialisable: a stored case can be replayed byte for byte.
"""
import zlib

import numpy as np

NAT = np.iinfo(np.int64).min

FLOAT_DTYPES = ["float64", "float32"]
SINT_DTYPES = ["int64", "int32", "int16", "int8"]
UINT_DTYPES = ["uint64", "uint32", "uint16", "uint8"]
INT_DTYPES = SINT_DTYPES + UINT_DTYPES
DT_DTYPES = ["datetime64[ns]", "datetime64[us]", "datetime64[ms]", "datetime64[s]"]
TD_DTYPES = ["timedelta64[ns]", "timedelta64[us]", "timedelta64[s]"]
TEMPORAL_DTYPES = DT_DTYPES + TD_DTYPES
VALUE_DTYPES = FLOAT_DTYPES + INT_DTYPES + ["bool"] + TEMPORAL_DTYPES

KEY_KINDS = ["int", "float", "str", "bool", "dt", "cat"]
LAYOUTS = ["mixed", "sorted", "prefix", "block", "revfirst"]

UNIT_NS = {"ns": 1, "us": 10**3, "ms": 10**6, "s": 10**9}


def rng_for(seed, prop, shard, extra=0):
    return np.random.Generator(
        np.random.PCG64([int(seed), zlib.crc32(prop.encode()), int(shard), int(extra)])
    )


def pick(rng, seq):
    return seq[int(rng.integers(len(seq)))]


def dtype_unit(dtype):
    return dtype[dtype.index("[") + 1 : -1]


# --------------------------------------------------------------------------
# keys
# --------------------------------------------------------------------------

STR_POOL = ["a", "b", "c", "d", "e", "aa", "B", "zz", "", "ab"]


def label_pool(rng, kind, k):
    """k distinct labels of the kind, in *ascending* order."""
    if kind == "int":
        lo = pick(rng, [-3, 0, 0, 1, 100, 2**40])
        step = pick(rng, [1, 1, 2, 7])
        return [int(lo + step * i) for i in range(k)]
    if kind == "float":
        base = pick(rng, [0.0, -1.5, 0.25, 1e6])
        return [float(base + 0.5 * i) for i in range(k)]
    if kind == "str":
        idx = sorted(rng.choice(len(STR_POOL), size=k, replace=False).tolist())
        return sorted(STR_POOL[i] for i in idx)
    if kind == "bool":
        return [False, True][: max(1, min(k, 2))]
    if kind == "dt":
        base = pick(rng, [0, 1_577_836_800, -86_400 * 400, 1_700_000_000])
        return [int(base + 3600 * i) for i in range(k)]  # seconds, scaled by unit later
    raise KeyError(kind)


def gen_key(rng, n, kind=None, nlabels=None, layout=None, null_p=None, name=None):
    """One key column. Returns spec {'kind','vals',('cats','unit'),'name'}."""
    kind = kind or pick(rng, KEY_KINDS)
    if nlabels is None:
        nlabels = int(rng.integers(1, 6))
    layout = layout or pick(rng, LAYOUTS)
    if null_p is None:
        null_p = pick(rng, [0.0, 0.0, 0.15, 0.4])
    spec = {"kind": kind, "name": name}
    if kind == "cat":
        base_kind = pick(rng, ["str", "int"])
        cats = label_pool(rng, base_kind, nlabels + int(rng.integers(0, 3)))
        if rng.random() < 0.5:
            cats = [cats[i] for i in rng.permutation(len(cats))]  # non-lexical category order
        used = cats[:nlabels] if rng.random() < 0.5 else [cats[i] for i in sorted(rng.choice(len(cats), size=min(nlabels, len(cats)), replace=False).tolist())]
        spec["cats"] = cats
        pool = used  # in category order
    else:
        pool = label_pool(rng, kind, nlabels)
        if kind == "dt":
            unit = pick(rng, ["ns", "us", "s"])
            spec["unit"] = unit
            pool = [p * (10**9 // UNIT_NS[unit]) for p in pool]  # value in the unit
    k = len(pool)
    codes = rng.integers(0, k, size=n)
    if layout == "sorted":
        codes = np.sort(codes)
    elif layout == "prefix":
        cut = int(n * rng.uniform(0.3, 0.9))
        codes[:cut] = np.sort(codes[:cut])
    elif layout == "block" and k > 1 and n > 3:
        cut = int(n * rng.uniform(0.4, 0.8))
        codes[:cut] = rng.integers(0, k - 1, size=cut)  # last label only in the last block
        codes[cut:] = rng.integers(0, k, size=n - cut)
        if n - cut > 0:
            codes[n - 1] = k - 1
    elif layout == "revfirst" and n > 0:
        codes[0] = k - 1  # largest label appears first
    vals = [pool[c] for c in codes]
    if null_p and kind != "bool":
        nulls = rng.random(n) < null_p
        if rng.random() < 0.1:
            nulls[:] = True
        vals = [None if z else v for v, z in zip(vals, nulls)]
    spec["vals"] = vals
    spec["layout"] = layout
    return spec


def logical_keys(keyspecs):
    """Row -> tuple of labels, or None when any component is null."""
    cols = [k["vals"] for k in keyspecs]
    out = []
    for row in zip(*cols):
        out.append(None if any(v is None for v in row) else tuple(row))
    return out


def key_order(keyspec):
    """sort key for one label of this column (category order for categoricals)."""
    if keyspec["kind"] == "cat":
        pos = {c: i for i, c in enumerate(keyspec["cats"])}
        return lambda v: pos[v]
    return lambda v: v


def sort_labels(keyspecs, labels):
    fs = [key_order(k) for k in keyspecs]
    return sorted(labels, key=lambda t: tuple(f(v) for f, v in zip(fs, t)))


KEY_CONTAINERS = ["np", "pd", "pd_index", "pl", "pa", "pa_chunked", "pd_arrow", "pd_arrow_chunked"]


def random_splits(rng, n, max_chunks=4):
    if n < 2:
        return []
    k = int(rng.integers(1, max_chunks))
    return sorted(set(int(x) for x in rng.integers(1, n, size=k)))


def key_array(spec, container="np", index=None, splits=None):
    """Pour a key spec into a container.  `splits` gives chunk boundaries for chunked containers."""
    import pandas as pd

    kind, vals, name = spec["kind"], spec["vals"], spec.get("name")
    if kind == "range":
        return pd.RangeIndex(spec["start"], spec["stop"], spec["step"], name=name)
    if container == "pa_chunked_dict":
        # a chunked dictionary-typed key whose chunks were encoded independently (e.g. row groups of a parquet file):
        # every chunk carries its own dictionary
        import pyarrow as pa

        typ = {"int": pa.int64(), "float": pa.float64(), "str": pa.string()}[kind]
        n = len(vals)
        bounds = [0, *sorted({s for s in (splits or []) if 0 < s < n}), n]
        return pa.chunked_array([pa.array(vals[a:b], type=typ).dictionary_encode() for a, b in zip(bounds, bounds[1:])])
    if container == "pa_dict":
        # a user-built dictionary array with unsigned indices (nulls as null indices)
        import pyarrow as pa

        labels = sorted({v for v in vals if v is not None}, key=repr)
        pos = {v: i for i, v in enumerate(labels)}
        idx = pa.array([None if v is None else pos[v] for v in vals], type=pa.uint8())
        typ = {"int": pa.int64(), "float": pa.float64(), "str": pa.string()}[kind]
        return pa.DictionaryArray.from_arrays(idx, pa.array(labels, type=typ))
    if container in ARROW_FAMILY and kind in ("int", "float", "str", "bool"):
        # Arrow-family containers carry logical nulls as Arrow nulls (not NaN)
        import pyarrow as pa

        typ = {"int": pa.int64(), "float": pa.float64(), "str": pa.string(), "bool": pa.bool_()}[kind]
        return pour_arrow(pa.array(vals, type=typ), container, index=index, name=name, splits=splits)
    if kind == "cat":
        arr = pd.Categorical(vals, categories=spec["cats"])
        if container == "np":
            return arr
        ser = pd.Series(arr, index=index, name=name)
        return ser
    if kind == "int":
        if any(v is None for v in vals):
            base = np.array([np.nan if v is None else v for v in vals], dtype="float64")
        else:
            base = np.array(vals, dtype="int64")
    elif kind == "float":
        base = np.array([np.nan if v is None else v for v in vals], dtype="float64")
    elif kind == "bool":
        base = np.array(vals, dtype=bool)
    elif kind == "str":
        base = np.array(vals, dtype=object)
    elif kind == "dt":
        base = np.array([NAT if v is None else v for v in vals], dtype="int64").view(f"datetime64[{spec['unit']}]")
    else:
        raise KeyError(kind)
    return pour(base, container, index=index, name=name, splits=splits)


ARROW_FAMILY = ("pl", "pa", "pa_chunked", "pd_arrow", "pd_arrow_chunked", "pa_dict", "pa_chunked_dict")


def pour_arrow(pa_arr, container, index=None, name=None, splits=None):
    """pyarrow array -> Arrow-family container."""
    import pandas as pd
    import pyarrow as pa

    n = len(pa_arr)
    if container == "pa":
        return pa_arr
    if container in ("pa_chunked", "pd_arrow_chunked"):
        bounds = [0, *sorted({s for s in (splits or []) if 0 < s < n}), n]  # (splits of a longer parent case are clipped)
        ch = pa.chunked_array([pa_arr.slice(a, b - a) for a, b in zip(bounds, bounds[1:])], type=pa_arr.type)
        if container == "pa_chunked":
            return ch
        return pd.Series(pd.arrays.ArrowExtensionArray(ch), index=index, name=name)
    if container == "pd_arrow":
        return pd.Series(pd.arrays.ArrowExtensionArray(pa_arr), index=index, name=name)
    if container == "pl":
        import polars as pl

        s = pl.from_arrow(pa_arr)
        return s.alias(name) if name else s
    raise KeyError(container)


def pour(base, container, index=None, name=None, splits=None):
    """numpy array -> container."""
    import pandas as pd

    if container == "np":
        return base
    if container == "pd":
        return pd.Series(base, index=index, name=name)
    if container == "pd_index":
        return pd.Index(base, name=name)
    import pyarrow as pa

    if base.dtype == object:
        pa_arr = pa.array(base.tolist(), type=pa.string())
    else:
        pa_arr = pa.array(base)  # NaN stays NaN, NaT becomes null for temporal
    if container == "pa":
        return pa_arr
    if container in ("pa_chunked", "pd_arrow_chunked"):
        bounds = [0, *sorted({s for s in (splits or []) if 0 < s < len(base)}), len(base)]
        chunks = [pa_arr.slice(a, b - a) for a, b in zip(bounds, bounds[1:])]
        ch = pa.chunked_array(chunks, type=pa_arr.type)
        if container == "pa_chunked":
            return ch
        return pd.Series(pd.arrays.ArrowExtensionArray(ch), index=index, name=name)
    if container == "pd_arrow":
        return pd.Series(pd.arrays.ArrowExtensionArray(pa_arr), index=index, name=name)
    if container == "pl":
        import polars as pl

        s = pl.from_arrow(pa_arr)
        if base.dtype.kind == "f":
            s = pl.Series(name or "", base)  # keep NaN as NaN, not null
        return s.alias(name) if name else s
    raise KeyError(container)


# --------------------------------------------------------------------------
# values
# --------------------------------------------------------------------------


def gen_vals(rng, n, dtype=None, null_mode=None, magnitude=None, name=None):
    dtype = dtype or pick(rng, VALUE_DTYPES)
    dt = np.dtype(dtype)
    spec = {"dtype": dtype, "name": name}
    if dt.kind == "f":
        magnitude = magnitude or pick(rng, ["small", "small", "frac", "big", "offset"])
        if magnitude == "small":
            v = rng.integers(-9, 10, size=n).astype(float)
        elif magnitude == "frac":
            v = np.round(rng.normal(0, 3, size=n), 3)
        elif magnitude == "big":
            v = rng.integers(-(10**6), 10**6, size=n).astype(float) * 1024.0
        else:
            v = 1e9 + rng.integers(0, 5, size=n).astype(float)
        v = v.astype(dt).astype(float)
        vals = [float(x) for x in v]
    elif dt.kind in "iu":
        info = np.iinfo(dt)
        magnitude = magnitude or pick(rng, ["small", "small", "edge", "big"])
        if magnitude == "mid" and dt.itemsize >= 4:
            lo, hi = (0 if dt.kind == "u" else -200_000_000), 200_000_000
            vals = [int(x) for x in rng.integers(lo, hi, size=n)]
        elif magnitude == "mid":
            vals = [int(x) for x in rng.integers(info.min, info.max, size=n, endpoint=True)]
        elif magnitude == "small":
            lo, hi = max(info.min, -9), min(info.max, 9)
            vals = [int(x) for x in rng.integers(lo, hi + 1, size=n)]
        elif magnitude == "edge":
            lo, hi = max(info.min, -(2**61)) // max(n, 1), min(info.max, 2**61) // max(n, 1)
            if dt.itemsize < 8:
                lo, hi = info.min, info.max
            vals = [int(x) for x in rng.integers(lo, hi, size=n, endpoint=True)]
        else:
            lo, hi = max(info.min, -(2**55)), min(info.max, 2**55)
            vals = [int(x) for x in rng.integers(lo, hi, size=n, endpoint=True)]
        if dt == np.dtype("int64"):
            vals = [v if v != NAT else NAT + 1 for v in vals]
    elif dt.kind == "b":
        vals = [bool(x) for x in rng.integers(0, 2, size=n)]
    elif dt.kind in "mM":
        unit = dtype_unit(dtype)
        per_s = 10**9 // UNIT_NS[unit]
        if dt.kind == "M":
            base = pick(rng, [1_577_836_800, 1_700_000_000, 0, -86_400 * 3])
            secs = base + rng.integers(0, 86_400 * 30, size=n)
            vals = [int(s) * per_s + (int(rng.integers(0, per_s)) if per_s > 1 and rng.random() < 0.5 else 0) for s in secs]
        else:
            vals = [int(x) * per_s // pick(rng, [1, 1, 7]) for x in rng.integers(-5000, 5000, size=n)]
        vals = [v if v != NAT else NAT + 1 for v in vals]
        if dt.kind == "M" and rng.random() < 0.15:
            spec["tz"] = pick(rng, ["UTC", "US/Eastern", "Asia/Tokyo"])
    else:
        raise KeyError(dtype)
    nullable = dt.kind in "fmM"
    null_mode = null_mode or pick(rng, ["none", "sparse", "sparse", "dense", "allnull_group"])
    if nullable and null_mode != "none" and n:
        p = {"sparse": 0.15, "dense": 0.6, "allnull_group": 0.15}.get(null_mode, 0.0)
        nulls = rng.random(n) < p
        vals = [None if z else v for v, z in zip(vals, nulls)]
    spec["vals"] = vals
    spec["null_mode"] = null_mode if nullable else "none"
    return spec


def null_out_group(valspec, lkeys, rng):
    """make all values of one randomly chosen group null (if dtype is nullable)."""
    if np.dtype(valspec["dtype"]).kind not in "fmM":
        return None
    labels = sorted({k for k in lkeys if k is not None}, key=repr)
    if not labels:
        return None
    g = labels[int(rng.integers(len(labels)))]
    valspec["vals"] = [None if k == g else v for v, k in zip(valspec["vals"], lkeys)]
    return g


VAL_CONTAINERS = ["np", "pd", "pl", "pa", "pa_chunked", "pd_arrow", "pd_arrow_chunked"]


def val_np(spec):
    dt = np.dtype(spec["dtype"])
    vals = spec["vals"]
    if dt.kind == "f":
        return np.array([np.nan if v is None else v for v in vals], dtype=dt)
    if dt.kind in "iub":
        return np.array(vals, dtype=dt)
    return np.array([NAT if v is None else v for v in vals], dtype="int64").view(dt)


def val_array(spec, container="np", index=None, splits=None):
    import pandas as pd

    name = spec.get("name")
    tz = spec.get("tz")
    if container in ARROW_FAMILY and spec.get("arrow_nulls") and np.dtype(spec["dtype"]).kind in "fiub":
        # logical nulls as Arrow nulls (also for integers and booleans, which numpy cannot express)
        import pyarrow as pa

        return pour_arrow(pa.array(spec["vals"], type=pa.from_numpy_dtype(np.dtype(spec["dtype"]))), container, index=index, name=name, splits=splits)
    base = val_np(spec)
    if tz:
        # tz-aware values exist only in pandas / arrow containers
        ser = pd.Series(base, index=index, name=name).dt.tz_localize("UTC").dt.tz_convert(tz)
        if container in ("np", "pd"):
            return ser
        if container == "pl":
            import polars as pl

            return pl.from_pandas(ser.reset_index(drop=True))
        import pyarrow as pa

        arr = pa.Array.from_pandas(ser)
        if container == "pa":
            return arr
        if container == "pd_arrow":
            return pd.Series(pd.arrays.ArrowExtensionArray(arr), index=index, name=name)
        bounds = [0, *sorted({s for s in (splits or []) if 0 < s < len(base)}), len(base)]
        ch = pa.chunked_array([arr.slice(a, b - a) for a, b in zip(bounds, bounds[1:])], type=arr.type)
        if container == "pa_chunked":
            return ch
        return pd.Series(pd.arrays.ArrowExtensionArray(ch), index=index, name=name)
    return pour(base, container, index=index, name=name, splits=splits)


# --------------------------------------------------------------------------
# masks
# --------------------------------------------------------------------------

MASK_KINDS = ["none", "bool", "bool_series", "slice", "pos"]


def gen_mask(rng, n, kind=None, lkeys=None):
    kind = kind or pick(rng, ["none", "none", "bool", "bool", "bool_series", "slice", "pos"])
    if kind == "none" or n == 0:
        return None
    if kind in ("bool", "bool_series"):
        mode = pick(rng, ["rand", "rand", "rand", "all", "nonefalse", "drop_group", "block"])
        if mode == "rand":
            m = rng.random(n) < rng.uniform(0.2, 0.9)
        elif mode == "all":
            m = np.ones(n, bool)
        elif mode == "nonefalse":
            m = np.zeros(n, bool)
        elif mode == "drop_group" and lkeys is not None:
            labels = sorted({k for k in lkeys if k is not None}, key=repr)
            m = rng.random(n) < 0.8
            if labels:
                g = labels[int(rng.integers(len(labels)))]
                m = np.array([bool(x) and k != g for x, k in zip(m, lkeys)])
        else:
            m = np.ones(n, bool)
            a = int(rng.integers(0, n))
            b = int(rng.integers(a, n + 1))
            m[a:b] = False
        return {"kind": kind, "vals": [bool(x) for x in m]}
    if kind == "slice":
        def bound():
            r = rng.random()
            if r < 0.25:
                return None
            if r < 0.5:
                return -int(rng.integers(1, n + 2))
            return int(rng.integers(0, n + 3))
        step = pick(rng, [None] * 12 + [2, 3, -1, -2])
        return {"kind": "slice", "start": bound(), "stop": bound(), "step": step}
    if kind == "pos":
        k = int(rng.integers(0, n + 1))
        mode = pick(rng, ["sorted_unique", "unsorted", "repeated", "negative"])
        if mode == "sorted_unique":
            p = np.sort(rng.choice(n, size=min(k, n), replace=False))
        elif mode == "unsorted":
            p = rng.choice(n, size=min(k, n), replace=False)
        elif mode == "repeated":
            p = rng.integers(0, n, size=k)
        else:
            p = rng.integers(-n, n, size=k)
        return {"kind": "pos", "vals": [int(x) for x in p]}
    raise KeyError(kind)


def mask_obj(mspec, index=None):
    """library-facing mask object."""
    import pandas as pd

    if mspec is None:
        return None
    k = mspec["kind"]
    if k == "bool":
        return np.array(mspec["vals"], dtype=bool)
    if k == "bool_series":
        return pd.Series(np.array(mspec["vals"], dtype=bool), index=index)
    if k == "slice":
        return slice(mspec["start"], mspec["stop"], mspec["step"])
    if k == "pos":
        return np.array(mspec["vals"], dtype="int64")
    raise KeyError(k)


def mask_selection(mspec, n):
    """Row positions selected by the mask, *the way array indexing would* (order and repeats kept)."""
    if mspec is None:
        return list(range(n))
    k = mspec["kind"]
    if k in ("bool", "bool_series"):
        return [i for i, b in enumerate(mspec["vals"]) if b]
    if k == "slice":
        return list(range(n))[slice(mspec["start"], mspec["stop"], mspec["step"])]
    if k == "pos":
        return [p if p >= 0 else n + p for p in mspec["vals"]]
    raise KeyError(k)


def mask_as_bool(mspec, n):
    sel = set(mask_selection(mspec, n))
    return [i in sel for i in range(n)]


def gen_index(rng, n):
    """A pandas index spec for row-aligned inputs: None (default) or labels (possibly duplicated)."""
    r = rng.random()
    if r < 0.4:
        return None
    if r < 0.6:
        return {"kind": "int", "vals": [int(x) for x in rng.permutation(n) + 10]}
    if r < 0.8:
        return {"kind": "int", "vals": [int(x) for x in rng.integers(0, max(2, n // 2), size=n)]}
    return {"kind": "str", "vals": [f"r{int(x)}" for x in rng.permutation(n)]}


def index_obj(ispec):
    import pandas as pd

    if ispec is None:
        return None
    return pd.Index(ispec["vals"])
