"""Known findings: loaded from the committed known_findings.json, never written at run time.

An *open* finding suppresses a failure only if its named predicate (below) holds for the failing
case: predicates look at input features and the failure signature (mechanism), never at hashes or
random values.  A *fixed* finding suppresses nothing; its witnesses are a regression corpus.
"""
import json
import os

ROOT = os.path.dirname(os.path.dirname(os.path.abspath(__file__)))

PREDICATES = {}


def predicate(name):
    def deco(fn):
        PREDICATES[name] = fn
        return fn

    return deco


def load():
    path = os.path.join(ROOT, "known_findings.json")
    if not os.path.exists(path):
        return []
    return json.load(open(path))["findings"]


def classify(prop, failure, findings):
    for f in findings:
        if f["status"] != "open" or prop not in f["properties"]:
            continue
        pred = PREDICATES.get(f.get("classifier"))
        if pred is None:
            continue
        try:
            if pred(prop, failure):
                return f["id"]
        except Exception:
            continue
    return None


# ------------------------------------------------------------------ predicates (mechanism-keyed)


def _group_native_sums(case, valspec):
    """exact per-group sums of the selected non-null values in the value's *native* unit."""
    from . import gen, model

    lk = gen.logical_keys(case["keys"])
    sel = gen.mask_selection(case.get("mask"), case["n"])
    return model.reductions(lk, valspec["vals"], sel, "sum")


@predicate("dt_mean_int64_overflow")
def _dt_mean_overflow(prop, failure):
    """mean of datetime values whose exact per-group sum of epoch offsets leaves the int64 range:
    the library sums the raw epoch integers in int64 before dividing (wraps)."""
    case = failure.get("case") or {}
    sig = failure.get("sig") or ""
    if not failure.get("monitor", "").endswith(".value") or not sig.startswith("mean|M"):
        return False
    vs = case.get("val")
    if not vs or not vs["dtype"].startswith("datetime64"):
        return False
    sums = _group_native_sums(case, vs)
    return any(not (-(2**63) <= s < 2**63) for s in sums.values())
