"""Known findings: loaded from the committed known_findings.json, never written at run time.

An *open* finding suppresses a failure only if its named predicate (below) holds for the failing
case: predicates look at input features and the failure signature (mechanism), never at hashes or
random values.  A *fixed* finding suppresses nothing; its witnesses are a regression corpus.
"""
import json
import os

ROOT = os.path.dirname(os.path.dirname(os.path.abspath(__file__)))

PREDICATES = {}


def predicate(name):
    def deco(fn):
        PREDICATES[name] = fn
        return fn

    return deco


def load():
    path = os.path.join(ROOT, "known_findings.json")
    if not os.path.exists(path):
        return []
    return json.load(open(path))["findings"]


def classify(prop, failure, findings):
    for f in findings:
        if f["status"] != "open" or prop not in f["properties"]:
            continue
        pred = PREDICATES.get(f.get("classifier"))
        if pred is None:
            continue
        try:
            if pred(prop, failure):
                return f["id"]
        except Exception:
            continue
    return None
