"""Known findings: loaded from the committed known_findings.json, never written at run time.

An *open* finding suppresses a failure only if its named predicate (below) holds for the failing
case: predicates look at input features and the failure signature (mechanism), never at hashes or
random values.  A *fixed* finding suppresses nothing; its witnesses are a regression corpus.
"""
import json
import os

ROOT = os.path.dirname(os.path.dirname(os.path.abspath(__file__)))

PREDICATES = {}


def predicate(name):
    def deco(fn):
        PREDICATES[name] = fn
        return fn

    return deco


def load():
    path = os.path.join(ROOT, "known_findings.json")
    if not os.path.exists(path):
        return []
    return json.load(open(path))["findings"]


def classify(prop, failure, findings):
    for f in findings:
        if f["status"] != "open" or prop not in f["properties"]:
            continue
        pred = PREDICATES.get(f.get("classifier"))
        if pred is None:
            continue
        try:
            if pred(prop, failure):
                return f["id"]
        except Exception:
            continue
    return None


# ------------------------------------------------------------------ predicates (mechanism-keyed)


def _group_native_sums(case, valspec):
    """exact per-group sums of the selected non-null values in the value's *native* unit."""
    from . import gen, model

    lk = gen.logical_keys(case["keys"])
    sel = gen.mask_selection(case.get("mask"), case["n"])
    return model.reductions(lk, valspec["vals"], sel, "sum")


@predicate("dt_mean_int64_overflow")
def _dt_mean_overflow(prop, failure):
    """mean of datetime values whose exact per-group sum of epoch offsets leaves the int64 range:
    the library sums the raw epoch integers in int64 before dividing (wraps)."""
    case = failure.get("case") or {}
    sig = failure.get("sig") or ""
    if not failure.get("monitor", "").endswith(".value") or not sig.startswith("mean|M"):
        return False
    vs = case.get("val")
    if not vs or not vs["dtype"].startswith("datetime64"):
        return False
    sums = _group_native_sums(case, vs)
    return any(not (-(2**63) <= s < 2**63) for s in sums.values())


@predicate("apply_no_observed_group")
def _apply_empty(prop, failure):
    """median / quantile / apply when no group has a selected row (every key null, or the mask selects
    no row with a non-null key): GroupBy.apply indexes its empty result list (IndexError)."""
    from . import gen

    case = failure.get("case") or {}
    if "raised" not in failure.get("monitor", ""):
        return False
    op = failure.get("op") or case.get("op")
    if op not in ("median", "quantile", "apply"):
        return False
    if "IndexError" not in (failure.get("detail") or ""):
        return False
    keys = failure.get("keys") or case.get("keys")
    n = len(keys[0]["vals"])
    lk = gen.logical_keys(keys)
    sel = gen.mask_selection(failure.get("mask", case.get("mask")), n)
    return not any(lk[i] is not None for i in sel)


@predicate("alpha_ema_mask_decay")
def _k02(prop, failure):
    """alpha/halflife EMA without times: a masked row still applies one decay step to its group, so
    mask != filter whenever an unselected row lies inside a group's active span."""
    from . import gen

    case = failure.get("case") or {}
    if failure.get("monitor") != "c05.filter" or case.get("op") != "ema" or case.get("times") is not None:
        return False
    m = case.get("mask")
    if m is None:
        return False
    lk = gen.logical_keys(case["keys"])
    selb = gen.mask_as_bool(m, case["n"])
    vals = case["val"]["vals"]
    seen_valid = set()
    pending = set()
    for i, k in enumerate(lk):
        if k is None:
            continue
        if selb[i]:
            if k in pending:
                return True
            if vals[i] is not None:
                seen_valid.add(k)
        elif k in seen_valid:
            pending.add(k)
    return False


@predicate("cumsum_noskip_timedelta_nat")
def _k04(prop, failure):
    """cumsum(skip_na=False) of timedelta values: the running sum is integer arithmetic on the NaT
    sentinel, so from a group's first NaT on the result is a wrapped number instead of NaT."""
    from . import gen

    case = failure.get("case") or {}
    if not failure.get("monitor", "").endswith(".value") or case.get("op") != "cumsum":
        return False
    if (case.get("params") or {}).get("skip_na", True) is not False:
        return False
    if not case["val"]["dtype"].startswith("timedelta64"):
        return False
    lk = gen.logical_keys(case["keys"])
    selb = gen.mask_as_bool(case.get("mask"), case["n"])
    return any(v is None and k is not None and selb[i] for i, (k, v) in enumerate(zip(lk, case["val"]["vals"])))


@predicate("bool_values_with_arrow_nulls")
def _k05(prop, failure):
    """boolean values carrying Arrow-level nulls: pyarrow converts them to an object array
    (True/False/None), which no kernel accepts; the call raises while the numpy data is accepted."""
    from . import gen

    case = failure.get("case") or {}
    pair = failure.get("pair") or {}
    if failure.get("monitor") != "c12.raised":
        return False
    vs = case.get("val") or {}
    return (vs.get("dtype") == "bool" and bool(vs.get("arrow_nulls")) and any(v is None for v in vs.get("vals", []))
            and pair.get("vc") in gen.ARROW_FAMILY)
