"""Reference model: a deliberately naive executable specification on logical rows.

Rows are (key tuple | None, value | None) of Python scalars.  Nothing here
imports the library; exact arithmetic (Python ints, Fractions) wherever the
property asks for exactness.
"""
import math
from fractions import Fraction

SKIP = "SKIP"  # marker: the row is not selected / has a null key (model makes no statement)


def isnull(x):
    return x is None or (isinstance(x, float) and math.isnan(x))


def group_rows(lkeys, sel=None):
    """label -> list of selected row positions (in selection order); first-appearance ordered dict."""
    out = {}
    rng = range(len(lkeys)) if sel is None else sel
    for i in rng:
        k = lkeys[i]
        if k is None:
            continue
        out.setdefault(k, []).append(i)
    return out


def exact_sum(nn):
    if nn and isinstance(nn[0], float):
        return math.fsum(nn)
    return sum(int(v) for v in nn)


def reduce_group(vals, op):
    nn = [v for v in vals if not isnull(v)]
    if op == "size":
        return len(vals)
    if op == "count":
        return len(nn)
    if op == "sum":
        return exact_sum(nn) if nn else 0
    if op == "sum_squares":
        return float(sum(Fraction(v) ** 2 for v in nn)) if nn else 0
    if op == "mean":
        return (sum(Fraction(v) for v in nn) / len(nn)) if nn else None
    if op == "min":
        return min(nn) if nn else None
    if op == "max":
        return max(nn) if nn else None
    if op == "first":
        return nn[0] if nn else None
    if op == "last":
        return nn[-1] if nn else None
    raise KeyError(op)


def reductions(lkeys, vals, sel, op):
    g = group_rows(lkeys, sel)
    return {k: reduce_group([vals[i] for i in rows], op) for k, rows in g.items()}


def abs_sums(lkeys, vals, sel):
    """label -> (n, sum |x|, max |x|) of the non-null selected values: for rounding bounds."""
    g = group_rows(lkeys, sel)
    out = {}
    for k, rows in g.items():
        nn = [abs(vals[i]) for i in rows if not isnull(vals[i])]
        out[k] = (len(nn), float(sum(nn)) if nn else 0.0, float(max(nn)) if nn else 0.0)
    return out


def variance(vals, ddof):
    nn = [Fraction(v) for v in vals if not isnull(v)]
    n = len(nn)
    if n - ddof <= 0:
        return None
    m = sum(nn) / n
    return float(sum((x - m) ** 2 for x in nn) / (n - ddof))


def cumulative(lkeys, vals, mask, op, skip_na=True):
    """Value at each selected row with non-null key; SKIP elsewhere."""
    n = len(lkeys)
    out = [SKIP] * n
    state = {}
    for i in range(n):
        k = lkeys[i]
        if k is None:
            continue
        if mask is not None and not mask[i]:
            continue
        st = state.setdefault(k, [])
        st.append(vals[i] if vals is not None else 0)
        if op == "cumcount":
            out[i] = len(st) - 1
            continue
        nn = [v for v in st if not isnull(v)]
        if not skip_na and len(nn) != len(st):
            out[i] = None
        elif op == "cumsum":
            out[i] = exact_sum(nn) if nn else 0
        elif op == "cummin":
            out[i] = min(nn) if nn else None
        elif op == "cummax":
            out[i] = max(nn) if nn else None
        else:
            raise KeyError(op)
    return out


def rolling(lkeys, vals, mask, op, window, min_periods=None):
    if min_periods is None:
        min_periods = window
    n = len(lkeys)
    out = [SKIP] * n
    state = {}
    for i in range(n):
        k = lkeys[i]
        if k is None:
            continue
        if mask is not None and not mask[i]:
            continue
        st = state.setdefault(k, [])
        if op in ("shift", "diff"):
            if len(st) >= window:
                prev = st[-window]
                if op == "shift":
                    out[i] = prev
                else:
                    out[i] = None if (isnull(prev) or isnull(vals[i])) else vals[i] - prev
            else:
                out[i] = None
            st.append(vals[i])
            continue
        st.append(vals[i])
        win = st[-window:]
        nn = [v for v in win if not isnull(v)]
        if len(nn) < min_periods:
            out[i] = None
        elif op == "rolling_sum":
            out[i] = exact_sum(nn)
        elif op == "rolling_mean":
            out[i] = sum(Fraction(v) for v in nn) / len(nn)
        elif op == "rolling_min":
            out[i] = min(nn)
        elif op == "rolling_max":
            out[i] = max(nn)
        else:
            raise KeyError(op)
    return out


def rolling_abs(lkeys, vals, mask, window):
    """sum |x| over the window at each selected row (rounding bound for running-sum implementations
    uses the whole prefix: a running sum carries the rounding of everything added and removed)."""
    n = len(lkeys)
    out = [0.0] * n
    state = {}
    for i in range(n):
        k = lkeys[i]
        if k is None or (mask is not None and not mask[i]):
            continue
        s = state.get(k, 0.0)
        if not isnull(vals[i]):
            s += abs(float(vals[i]))
        state[k] = s
        out[i] = s
    return out


def ema(lkeys, vals, mask, alpha=None, times=None, halflife=None):
    """Closed form.  times/halflife in the same unit.  Returns list (None = null, SKIP = null key)."""
    n = len(lkeys)
    out = [SKIP] * n
    rows = {}
    last = {}
    for i in range(n):
        k = lkeys[i]
        if k is None:
            continue
        r = rows.setdefault(k, [])
        r.append(i)
        valid = (not isnull(vals[i])) and (mask is None or mask[i])
        if not valid:
            out[i] = last.get(k)
            continue
        num = []
        den = []
        for pos, j in enumerate(r):
            vj = (not isnull(vals[j])) and (mask is None or mask[j])
            if not vj:
                continue
            if times is None:
                w = (1.0 - alpha) ** (len(r) - 1 - pos)
            else:
                w = 0.5 ** ((times[i] - times[j]) / halflife)
            num.append(w * vals[j])
            den.append(w)
        out[i] = math.fsum(num) / math.fsum(den)
        last[k] = out[i]
    return out


def select_rows(lkeys, how, n):
    """positions selected by head/tail/nth, per group; returns (groups, sorted list of positions)."""
    g = group_rows(lkeys)
    pos = []
    for k, rows in g.items():
        if how == "head":
            pos += rows[:n] if n > 0 else []
        elif how == "tail":
            pos += rows[len(rows) - n :] if 0 < n <= len(rows) else (rows if n > 0 else [])
        elif how == "nth":
            if 0 <= n < len(rows):
                pos.append(rows[n])
            elif n < 0 and -n <= len(rows):
                pos.append(rows[n])
        else:
            raise KeyError(how)
    return g, sorted(pos)


def margins_model(lkeys, vals, sel, op, levels, nkeys):
    """All rows of a margins result computed from the raw rows.

    Returns {label tuple (with 'All' in summarised positions): value}.  levels = list of key
    positions for which an 'All' row is requested (None = all levels)."""
    from itertools import combinations

    if levels is None:
        levels = list(range(nkeys))
    rows = [i for i in (range(len(lkeys)) if sel is None else sel) if lkeys[i] is not None]
    out = {}
    for r in range(0, len(levels) + 1):
        for summarised in combinations(levels, r):
            groups = {}
            for i in rows:
                lab = tuple("All" if p in summarised else lkeys[i][p] for p in range(nkeys))
                groups.setdefault(lab, []).append(i)
            for lab, idx in groups.items():
                out[lab] = reduce_group([vals[i] if vals is not None else 0 for i in idx], op)
    return out


def selfcheck():
    """Cross-check the model against unrelated one-liners on a fixed corpus (DESIGN §8)."""
    import numpy as np
    import pandas as pd

    rs = np.random.RandomState(12345)
    for trial in range(30):
        n = int(rs.randint(1, 25))
        k = rs.randint(0, 3, size=n)
        v = rs.randint(-5, 6, size=n).astype(float)
        v[rs.rand(n) < 0.2] = np.nan
        lk = [(int(x),) for x in k]
        vals = [None if np.isnan(x) else float(x) for x in v]
        s = pd.Series(v)
        g = s.groupby(k)
        for op, pdres in [("sum", g.sum()), ("count", g.count()), ("min", g.min()), ("max", g.max()),
                          ("first", g.first()), ("last", g.last()), ("size", g.size())]:
            ref = reductions(lk, vals, None, op)
            for lab, x in pdres.items():
                y = ref[(int(lab),)]
                if isnull(x) != isnull(y) or (not isnull(x) and float(x) != float(y)):
                    return f"model selfcheck failed: {op} {lab} {x} {y}"
        for op, pdres in [("cumsum", g.cumsum()), ("cummin", g.cummin()), ("cummax", g.cummax())]:
            ref = cumulative(lk, vals, None, op)
            for i in range(n):
                if isnull(vals[i]):
                    continue  # pandas leaves NaN at null rows, the model carries the running value
                if float(pdres.iloc[i]) != float(ref[i]):
                    return f"model selfcheck failed: {op} row {i}"
        w = int(rs.randint(1, 5))
        mp = int(rs.randint(1, w + 1))
        for op, name in [("rolling_sum", "sum"), ("rolling_min", "min"), ("rolling_max", "max"), ("rolling_mean", "mean")]:
            pdres = g.rolling(w, min_periods=mp).agg(name).reset_index(level=0, drop=True).sort_index()
            ref = rolling(lk, vals, None, op, w, mp)
            for i in range(n):
                x, y = pdres.iloc[i], ref[i]
                if isnull(x) != isnull(y) or (not isnull(x) and abs(float(x) - float(y)) > 1e-9):
                    return f"model selfcheck failed: {op} row {i} {x} {y}"
        sh = g.shift(w)
        ref = rolling(lk, vals, None, "shift", w)
        for i in range(n):
            if isnull(sh.iloc[i]) != isnull(ref[i]) or (not isnull(ref[i]) and float(sh.iloc[i]) != ref[i]):
                return f"model selfcheck failed: shift row {i}"
        alpha = float(rs.uniform(0.05, 1.0))
        pdema = g.transform(lambda x: x.ewm(alpha=alpha, adjust=True, ignore_na=False).mean())
        ref = ema(lk, vals, None, alpha=alpha)
        for i in range(n):
            if isnull(vals[i]):
                continue
            if abs(float(pdema.iloc[i]) - ref[i]) > 1e-9 * max(1.0, abs(ref[i])):
                return f"model selfcheck failed: ema row {i} {pdema.iloc[i]} {ref[i]}"
        for how in ("head", "tail"):
            m = int(rs.randint(0, 5))
            idx = sorted(getattr(g, how)(m).index.tolist())
            if idx != select_rows(lk, how, m)[1]:
                return f"model selfcheck failed: {how}({m})"
        for m in (-3, -1, 0, 1, 2):
            idx = sorted(g.nth(m).index.tolist())
            if idx != select_rows(lk, "nth", m)[1]:
                return f"model selfcheck failed: nth({m})"
    return None
