"""Operation table and uniform execution / normalisation of GroupBy operations.

A *case* is a JSON dict: {n, keys:[keyspec], val: valspec, mask: mspec|None, op, params:{}, sort, kc:[..], vc,
index: ispec|None, ...}.  `execute` pours it into containers, runs the real library call through lib.call
(so every execution is also an input-snapshot observation) and returns a normalised `Res`.
"""
import math

import numpy as np
import pandas as pd

from . import cmp, gen, lib

RED = ["size", "count", "sum", "mean", "min", "max", "first", "last"]
RED_X = ["var", "std", "median", "quantile"]
CUM = ["cumsum", "cummin", "cummax", "cumcount"]
ROLL = ["rolling_sum", "rolling_mean", "rolling_min", "rolling_max"]
SHIFT = ["shift", "diff"]
EMA = ["ema"]
SEL = ["head", "tail", "nth"]
ROW = CUM + ROLL + SHIFT + EMA

KIND = {}
for _o in RED + RED_X:
    KIND[_o] = "red"
for _o in ROW:
    KIND[_o] = "row"
for _o in SEL:
    KIND[_o] = "sel"

TRANSFORMABLE = ["size", "count", "sum", "mean", "min", "max", "first", "last", "var", "std", "median"]
FLOAT_TOL_OPS = {"sum", "mean", "cumsum", "rolling_sum", "rolling_mean", "var", "std", "ema", "median", "quantile"}


def accepts(op, dtype):
    """documented / sensible value dtypes per operation (preconditions, DESIGN §3)."""
    k = np.dtype(dtype).kind
    if op in ("size", "cumcount"):
        return True
    if op in ("sum", "cumsum", "rolling_sum"):
        return k != "M"  # a sum of timestamps is meaningless (their mean is not)
    if op in ("var", "std"):
        return k in "fiu"
    if op == "median":
        return k in "fiu"
    if op == "quantile":
        return k in "fiu"
    if op == "ema":
        return dtype in ("float64", "float32", "int64", "int32")
    return True


def gen_params(rng, op, n):
    if op in ROLL:
        w = int(rng.integers(1, 6))
        r = rng.random()
        mp = None if r < 0.3 else int(rng.integers(1, w + 1))
        return {"window": w, "min_periods": mp}
    if op in SHIFT:
        return {"window": int(rng.integers(1, 4))}
    if op in ("cumsum", "cummin", "cummax"):
        return {"skip_na": bool(rng.random() < 0.75)}
    if op in ("var", "std"):
        return {"ddof": int(rng.integers(0, 2))}
    if op == "quantile":
        return {"q": gen.pick(rng, [[0.5], [0.25, 0.75], [0.0, 1.0], [0.1, 0.5, 0.9]])}
    if op == "ema":
        r = rng.random()
        if r < 0.6:
            return {"alpha": gen.pick(rng, [0.5, 0.1, 0.9, 1.0, 0.001, float(np.round(rng.uniform(0.01, 1), 3))])}
        return {"halflife": gen.pick(rng, [1.0, 2.5, 0.3, 3.14159, 7.0])}
    if op in ("head", "tail"):
        return {"n": int(rng.integers(0, 5))}
    if op == "nth":
        return {"n": int(rng.integers(-4, 5))}
    return {}


class Res:
    """normalised outcome of one library call."""

    __slots__ = ("raised", "kind", "labels", "vals", "index", "dtype", "raw", "names", "container")

    def __init__(self):
        self.raised = None
        self.kind = None
        self.labels = None  # red: list of label tuples (result order)
        self.vals = None  # red: list aligned with labels; row: list per row; sel: list
        self.index = None  # row/sel: list of index labels
        self.dtype = None
        self.raw = None
        self.names = None
        self.container = None

    def as_map(self):
        out = {}
        for l, v in zip(self.labels, self.vals):
            if l in out:
                raise ValueError(f"duplicate label {l!r}")
            out[l] = v
        return out

    def __repr__(self):
        if self.raised is not None:
            return f"Res(raised={self.raised!r})"
        return f"Res({self.kind}, dtype={self.dtype}, labels={self.labels}, vals={self.vals}, index={self.index})"


def normalise(raw, kind):
    r = Res()
    r.raw = raw
    r.kind = kind
    if lib.raised(raw):
        r.raised = raw
        return r
    r.container = "pl" if type(raw).__module__.startswith("polars") else ("pd" if isinstance(raw, (pd.Series, pd.DataFrame)) else type(raw).__name__)
    if isinstance(raw, pd.DataFrame):
        # multi-column results: vals is a dict of columns
        r.dtype = {str(c): str(raw[c].dtype) for c in raw.columns}
        r.vals = {str(c): cmp.col_py(raw[c]) for c in raw.columns}
        r.names = [str(c) for c in raw.columns]
        if kind == "red":
            r.labels = cmp.labels_of(raw.index)
        else:
            r.index = [cmp.py(v) if not isinstance(v, tuple) else tuple(cmp.py(x) for x in v) for v in raw.index.tolist()]
        return r
    r.dtype = str(getattr(raw, "dtype", None))
    r.vals = cmp.col_py(raw)
    if isinstance(raw, pd.Series):
        r.names = raw.name
        if kind == "red":
            r.labels = cmp.labels_of(raw.index)
        else:
            r.index = [cmp.py(v) if not isinstance(v, tuple) else tuple(cmp.py(x) for x in v) for v in raw.index.tolist()]
    elif r.container == "pl":
        r.names = raw.name
    return r


def build_inputs(case, keyspecs=None, valspec=None, mspec="__case__", index="__case__", kc=None, vc=None,
                 ksplits="__case__", vsplits="__case__"):
    """library-facing objects for a case (with optional overrides)."""
    keyspecs = keyspecs if keyspecs is not None else case["keys"]
    valspec = valspec if valspec is not None else case.get("val")
    mspec = case.get("mask") if mspec == "__case__" else mspec
    ispec = case.get("index") if index == "__case__" else index
    idx = gen.index_obj(ispec)
    kcs = kc or case.get("kc") or ["np"] * len(keyspecs)
    ks = case.get("ksplits") if ksplits == "__case__" else ksplits
    vs = case.get("vsplits") if vsplits == "__case__" else vsplits
    keys = [gen.key_array(k, c, index=idx, splits=ks) for k, c in zip(keyspecs, kcs)]
    keys_obj = keys[0] if len(keys) == 1 else keys
    val = None
    if valspec is not None:
        val = gen.val_array(valspec, vc or case.get("vc", "np"), index=idx, splits=vs)
    mask = gen.mask_obj(mspec, index=idx)
    return keys_obj, val, mask, idx


def make_gb(keys_obj, sort=True, **kw):
    from groupby_lib import GroupBy

    return lib.call(GroupBy, keys_obj, sort=sort, **kw)


def call_op(gb, op, params, val, mask, transform=False, times=None, extra=None):
    """run one operation on a grouping; returns the raw result or lib.Raised."""
    p = dict(params or {})
    kw = dict(extra or {})
    if transform:
        kw["transform"] = True
    if op == "size":
        return lib.call(gb.size, mask=mask, **kw)
    if op in RED:
        return lib.call(getattr(gb, op), val, mask=mask, **kw)
    if op in ("var", "std"):
        return lib.call(getattr(gb, op), val, mask=mask, ddof=p.get("ddof", 1), **kw)
    if op == "median":
        return lib.call(gb.median, val, mask=mask, **kw)
    if op == "quantile":
        return lib.call(gb.quantile, val, q=p["q"], mask=mask)
    if op == "cumcount":
        return lib.call(gb.cumcount, mask=mask)
    if op in ("cumsum", "cummin", "cummax"):
        return lib.call(getattr(gb, op), val, mask=mask, skip_na=p.get("skip_na", True))
    if op in ROLL:
        return lib.call(getattr(gb, op), val, window=p["window"], min_periods=p.get("min_periods"), mask=mask, **kw)
    if op in SHIFT:
        return lib.call(getattr(gb, op), val, window=p.get("window", 1), mask=mask)
    if op == "ema":
        a = {k: p[k] for k in ("alpha", "halflife") if k in p}
        return lib.call(gb.ema, val, times=times, mask=mask, **a, **kw)
    if op in SEL:
        return lib.call(getattr(gb, op), val, p["n"], keep_input_index=True)
    raise KeyError(op)


def execute(case, op=None, params=None, transform=False, gb=None, **over):
    """build inputs, construct the grouping (unless given), run the operation, normalise."""
    op = op or case["op"]
    params = case.get("params") if params is None else params
    keys_obj, val, mask, idx = build_inputs(case, **over)
    if gb is None:
        gb = make_gb(keys_obj, sort=case.get("sort", True))
        if lib.raised(gb):
            r = Res()
            r.raised = gb
            r.kind = KIND[op]
            return r
    times = None
    if case.get("times") is not None:
        times = times_obj(case["times"], idx)
    raw = call_op(gb, op, params, val, mask, transform=transform, times=times, extra=case.get("extra"))
    return normalise(raw, "row" if transform else KIND[op])


def times_obj(tspec, idx=None):
    arr = np.array(tspec["vals"], dtype="int64").view(f"datetime64[{tspec.get('unit', 'ns')}]")
    if tspec.get("container", "np") == "pd":
        return pd.Series(arr, index=idx)
    return arr


# ------------------------------------------------------------------ comparison of two normalised results


def float_tol(op, valspec, n):
    """column-level rounding bound for floating results of sum-like operations."""
    dtype = valspec["dtype"] if valspec else "float64"
    dt = np.dtype(dtype)
    if dt.kind not in "fiu" and op not in ("mean", "rolling_mean"):
        return 0.0
    if op not in FLOAT_TOL_OPS:
        return 0.0
    vals = [abs(float(v)) for v in valspec["vals"] if v is not None]
    s = math.fsum(vals) if vals else 0.0
    mx = max(vals) if vals else 0.0
    eps = cmp.EPS.get(dtype, cmp.EPS["float64"])
    if op == "var":
        return 16.0 * (n + 2) * eps * mx * mx + 1e-300
    if op == "std":  # |sqrt(a) - sqrt(b)| <= sqrt(|a - b|)
        return math.sqrt(16.0 * (n + 2) * eps * mx * mx) + 1e-300
    return 4.0 * (n + 2) * eps * s + 1e-300


def same_value(a, b, tol, nullzero=False):
    """nullzero: a null on one side matches a value within tol of zero on the other (var/std from sums of squares
    turn a tiny negative variance into NaN; both are inside the stated rounding bound)."""
    if cmp.is_null(a) or cmp.is_null(b):
        if cmp.is_null(a) and cmp.is_null(b):
            return True
        other = b if cmp.is_null(a) else a
        return bool(nullzero) and isinstance(other, (int, float)) and abs(other) <= tol
    if isinstance(a, (bool, str)) or isinstance(b, (bool, str)) or tol == 0:
        return a == b
    try:
        return abs(float(a) - float(b)) <= tol or a == b
    except (TypeError, ValueError, OverflowError):
        return a == b


def diff_red(a, b, tol=0.0, what="", nullzero=False):
    """compare two 'red' results as label->value maps; returns description of first difference or None."""
    if (a.raised is None) != (b.raised is None):
        return f"{what}: one side raised: {a!r} vs {b!r}"
    if a.raised is not None:
        return None
    if isinstance(a.vals, dict) or isinstance(b.vals, dict):
        if not (isinstance(a.vals, dict) and isinstance(b.vals, dict)) or list(a.vals) != list(b.vals):
            return f"{what}: column sets differ"
        for c in a.vals:
            ma, mb = dict(zip(a.labels, a.vals[c])), dict(zip(b.labels, b.vals[c]))
            d = _diff_maps(ma, mb, tol, f"{what}[{c}]", nullzero)
            if d:
                return d
        return None
    try:
        ma, mb = a.as_map(), b.as_map()
    except ValueError as e:
        return f"{what}: {e}"
    return _diff_maps(ma, mb, tol, what, nullzero)


def _diff_maps(ma, mb, tol, what, nullzero=False):
    if set(ma) != set(mb):
        return f"{what}: labels differ: only-left={sorted(set(ma) - set(mb), key=repr)[:3]} only-right={sorted(set(mb) - set(ma), key=repr)[:3]}"
    for l in ma:
        if not same_value(ma[l], mb[l], tol, nullzero):
            return f"{what}: label {l!r}: {ma[l]!r} vs {mb[l]!r}"
    return None


def diff_rows(a_vals, b_vals, tol=0.0, what="", rows=None, nullzero=False):
    if len(a_vals) != len(b_vals):
        return f"{what}: lengths differ {len(a_vals)} vs {len(b_vals)}"
    for i, (x, y) in enumerate(zip(a_vals, b_vals)):
        if not same_value(x, y, tol, nullzero):
            r = i if rows is None else rows[i]
            return f"{what}: row {r}: {x!r} vs {y!r}"
    return None


def is_neutral(v, op, res_dtype):
    """null/neutral marker accepted for rows or groups without any selected observation."""
    if cmp.is_null(v):
        return True
    if op in ("sum", "count", "size", "cumsum", "cumcount") and v == 0:
        return True
    try:
        name = str(res_dtype).lower().replace("boolean", "bool")  # polars spells Int32 / UInt8 / Boolean
        dt = np.dtype(name)
    except (TypeError, ValueError):
        return False
    if dt.kind == "i" and v == np.iinfo(dt).min:
        return True
    if dt.kind == "u" and v == np.iinfo(dt).max:
        return True
    if dt.kind == "b" and v is False:
        return True
    return False


def dtype_kind(dtype_str):
    """numpy-style kind letter of a result dtype given as string (numpy, pandas tz-aware, Arrow-backed, polars)."""
    s = str(dtype_str)
    try:
        return np.dtype(s).kind
    except (TypeError, ValueError):
        pass
    low = s.lower()
    if low.startswith("datetime") or low.startswith("timestamp"):
        return "M"
    if low.startswith("timedelta") or low.startswith("duration"):
        return "m"
    if low.startswith("uint"):
        return "u"
    if low.startswith("int"):
        return "i"
    if low.startswith("float") or low.startswith("double"):
        return "f"
    if low.startswith("bool"):
        return "b"
    return "?"
