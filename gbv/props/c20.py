"""C20 - stand-alone array helpers agree with their NumPy definitions (differential monitor)."""
import itertools
import math
import warnings

import numpy as np
import pandas as pd

from .. import cmp, gen, lib
from . import common

LEVEL = "exploration"
RULE = ("(a) nanops.nansum/nanmean/nanmin/nanmax/nanvar/nanstd/count on 1-D float64/float32/int64/int32 arrays of length "
        "1..40 (null placements incl. all-null blocks and all-null arrays) for every n_threads 1..8 (more threads than "
        "elements creates empty blocks) and for the default thread choice, the latter also on arrays of 2,000,000 +- 1, "
        "4,000,001 and 6,000,000 elements where it switches to several threads, and sum/min/max per axis on 2-D arrays, against NumPy's nan-functions; "
        "(b) nb_dot(a, b) vs a @ b for ndarray / pandas / polars frames and int/float mixes; (c) bools_to_categorical: "
        "EXHAUSTIVELY all boolean frames with <= 3 columns x <= 4 rows, plus random frames up to 40 columns around the "
        "8/16/32 bit-width switches - every row's label must name exactly its true columns; (d) pretty_cut: random values "
        "and bin edges incl. values equal to edges, int and float - the printed bounds of the assigned bin must contain the "
        "value and nulls get no bin. distinct = case digests; non-trivial = the input has >= 2 elements / rows")
ASSUMPTIONS = [
    "sums and means within 4(n+2)*eps*sum|x| (eps of the array dtype), variance within 16(n+2)*eps*max(x^2), min/max/count exact",
    "where NumPy returns NaN with a warning (all-NaN, too few values) the helper must return a null (NaN) as well",
    "pretty_cut labels are parsed as ' <= b', ' > b', 'l - r' (integers: l..r inclusive; floats: l < x <= r) or a single value",
]
N_CASES = {"quick": 2500, "thorough": 30000}
PARTS = ["nanops", "nanops", "nanops2d", "dot", "bools_exh", "bools_rand", "cut", "nanops"]


def plan(tier):
    p = [dict(shard=i, nshards=len(PARTS), mode="prod") for i in range(len(PARTS))]
    p += [dict(shard=0, nshards=len(PARTS), mode="bounds"), dict(shard=2, nshards=len(PARTS), mode="bounds")]
    if tier == "thorough":
        p += [dict(shard=i, nshards=len(PARTS), mode="bounds") for i in (3, 5, 6, 7)]
    return p


def required_counters(tier):
    return ["nanops_calls", "default_thread_choice_calls", "default_thread_choice_multi_thread_calls", "threads_gt_len", "all_null_block", "axis_calls", "dot_calls", "bool_frames", "bool_width_16", "bool_width_32",
            "bool_width_64", "cut_values", "cut_value_on_edge", "cut_nulls"]


def features(case):
    return [f"part={case['part']}"]


def nontrivial(case):
    return case.get("n", 2) >= 2


def _arr(case):
    dt = np.dtype(case["dtype"])
    if case.get("big"):  # described, not listed: n small integers (exact sums in every dtype), nulls at rate null_p, optionally a leading all-null stretch
        rng = np.random.Generator(np.random.PCG64(case["big"]["seed"]))
        a = rng.integers(-9, 10, size=case["n"]).astype(dt)
        if dt.kind == "f":
            a[rng.random(case["n"]) < case["big"]["null_p"]] = np.nan
            a[: case["big"]["null_prefix"]] = np.nan
        return a
    if dt.kind == "f":
        return np.array([np.nan if v is None else v for v in case["vals"]], dtype=dt)
    return np.array(case["vals"], dtype=dt)


def _isnull(x):
    try:
        return x is None or (isinstance(x, (float, np.floating)) and math.isnan(x)) or x is pd.NaT
    except TypeError:
        return False


def _show(a):
    return a.tolist() if len(a) <= 64 else f"<{len(a)} elements, first {a[:4].tolist()}>"


def check_nanops(case, ctx):
    from groupby_lib import nanops

    a = _arr(case)
    n = len(a)
    dt = a.dtype
    eps = cmp.EPS.get(str(dt), cmp.EPS["float64"])
    af = a.astype("float64")
    nn = af[~np.isnan(af)]
    s_abs = float(np.abs(nn).sum()) if len(nn) else 0.0
    mx = float(np.abs(nn).max()) if len(nn) else 0.0
    fails = []
    with warnings.catch_warnings():
        warnings.simplefilter("ignore")
        ref = {
            "nansum": float(np.nansum(af)), "nanmean": float(np.nanmean(af)) if len(nn) else float("nan"),
            "nanmin": float(np.nanmin(af)) if len(nn) else float("nan"), "nanmax": float(np.nanmax(af)) if len(nn) else float("nan"),
            "nanvar": float(np.nanvar(af, ddof=1)) if len(nn) > 1 else float("nan"),
            "nanstd": float(np.nanstd(af, ddof=1)) if len(nn) > 1 else float("nan"),
            "count": int(len(nn)),
        }
    tol = {"nansum": 4 * (n + 2) * eps * s_abs, "nanmean": 4 * (n + 2) * eps * s_abs / max(1, len(nn)) + 4 * eps * mx,
           "nanmin": 0.0, "nanmax": 0.0, "nanvar": 16 * (n + 2) * eps * mx * mx, "nanstd": math.sqrt(16 * (n + 2) * eps * mx * mx), "count": 0}
    for nt in case["threads"]:
        if nt is not None and nt > n:
            ctx.count("threads_gt_len")
        if dt.kind == "f" and nt is not None and nt > 1 and n <= 1000 and any(np.isnan(b.astype("float64")).all() for b in np.array_split(a, nt) if len(b)):
            ctx.count("all_null_block")
        for name, r in ref.items():
            f = getattr(nanops, name)
            if name == "count":
                if nt != case["threads"][0]:
                    continue
                got = lib.call(f, a)
            else:
                got = lib.call(f, a, n_threads=nt)
            ctx.count("nanops_calls")
            if nt is None:
                ctx.count("default_thread_choice_calls")
                if n >= 4_000_000:
                    ctx.count("default_thread_choice_multi_thread_calls")
            sig = f"{name}|{dt.kind}"
            if lib.raised(got):
                fails.append({"monitor": "c20.raised", "sig": f"{sig}|{type(got.exc).__name__}", "detail": f"nanops.{name}({_show(a)}, n_threads={nt}) raised {got!r}"})
                continue
            try:
                g = float(got)
            except (TypeError, ValueError):
                g = float(np.asarray(got).astype("float64"))
            if math.isnan(r):
                ok = math.isnan(g)
                if not ok and name in ("nanvar", "nanstd") and abs(g) <= tol[name] + 1e-300 and len(nn) > 1:
                    ok = True
            elif math.isnan(g):
                ok = name in ("nanstd", "nanvar") and abs(r) <= tol[name]
            else:
                ok = abs(g - r) <= tol[name] + 1e-300
            if not ok:
                fails.append({"monitor": "c20.nanops", "sig": sig, "detail": f"nanops.{name}(dtype={dt}, {_show(a)}, n_threads={nt}) = {got!r}, numpy = {r!r}"})
        if len(fails) >= 3:
            break
    return fails


def check_nanops2d(case, ctx):
    from groupby_lib import nanops

    a = np.array([[np.nan if v is None else v for v in row] for row in case["rows"]], dtype=case["dtype"])
    fails = []
    eps = cmp.EPS.get(case["dtype"], cmp.EPS["float64"])
    for axis in (0, 1):
        for name, npf in (("nansum", np.nansum), ("nanmin", np.nanmin), ("nanmax", np.nanmax)):
            with warnings.catch_warnings():
                warnings.simplefilter("ignore")
                r = npf(a.astype("float64"), axis=axis)
            got = lib.call(getattr(nanops, name), a, axis=axis, n_threads=case["n_threads"])
            ctx.count("axis_calls")
            if lib.raised(got):
                fails.append({"monitor": "c20.raised", "sig": f"{name}|2d|{type(got.exc).__name__}", "detail": f"nanops.{name}(2-D {a.shape}, axis={axis}, n_threads={case['n_threads']}) raised {got!r}"})
                continue
            g = np.asarray(got).astype("float64")
            tol = 4 * (a.shape[1 - axis] + 2) * eps * np.nansum(np.abs(a.astype("float64")), axis=axis) if name == "nansum" else np.zeros(r.shape)
            tol = np.nan_to_num(tol)
            if g.shape != r.shape or not np.all((np.isnan(g) & np.isnan(r)) | (np.abs(g - r) <= tol + 1e-300)):
                fails.append({"monitor": "c20.nanops", "sig": f"{name}|2d", "detail": f"nanops.{name}({a.tolist()}, axis={axis}, n_threads={case['n_threads']}) = {g.tolist()}, numpy = {r.tolist()}"})
    return fails


def check_dot(case, ctx):
    import polars as pl
    from groupby_lib import nb_dot

    a = np.array(case["a"], dtype=case["adtype"]).reshape(case["shape"])
    b = np.array(case["b"], dtype=case["bdtype"])
    ref = a.astype("float64") @ b.astype("float64")
    cont = case["container"]
    if cont == "np":
        A = a
    elif cont == "pd":
        A = pd.DataFrame(a, columns=[f"c{i}" for i in range(a.shape[1])], index=np.arange(len(a)) + 5)
    else:
        A = pl.DataFrame({f"c{i}": a[:, i] for i in range(a.shape[1])})
    bb = b if case.get("bcont", "np") == "np" else pd.Series(b)
    got = lib.call(nb_dot, A, bb)
    ctx.count("dot_calls")
    sig = f"dot|{case['adtype']}x{case['bdtype']}|{cont}"
    if lib.raised(got):
        return [{"monitor": "c20.raised", "sig": f"{sig}|{type(got.exc).__name__}", "detail": f"nb_dot({cont} {a.tolist()}, {b.tolist()}) raised {got!r}"}]
    g = np.asarray(got.to_numpy() if hasattr(got, "to_numpy") else got).astype("float64")
    if g.shape != ref.shape or not np.allclose(g, ref, rtol=1e-12, atol=1e-9):
        return [{"monitor": "c20.dot", "sig": sig, "detail": f"nb_dot({cont} {a.tolist()}, {b.tolist()}) = {g.tolist()}, a @ b = {ref.tolist()}"}]
    if cont == "pd" and list(got.index) != list(A.index):
        return [{"monitor": "c20.dot", "sig": sig + "|index", "detail": "nb_dot on a DataFrame did not keep its index"}]
    return []


def check_bools(case, ctx):
    from groupby_lib import bools_to_categorical

    cols = case["cols"]
    m = np.array(case["rows"], dtype=bool).reshape(len(case["rows"]), len(cols))
    df = pd.DataFrame(m, columns=cols)
    ctx.count("bool_frames")
    w = min(x for x in [8, 16, 32, 64] if x > len(cols))
    ctx.count(f"bool_width_{w}")
    got = lib.call(bools_to_categorical, df)
    sig = f"bools|w{w}"
    if lib.raised(got):
        return [{"monitor": "c20.raised", "sig": f"{sig}|{type(got.exc).__name__}", "detail": f"bools_to_categorical({len(cols)} columns, rows {m.astype(int).tolist()[:4]}) raised {got!r}"}]
    labels = list(got.astype(object)) if not isinstance(got, pd.Series) else got.astype(object).tolist()
    if len(labels) != len(m):
        return [{"monitor": "c20.bools", "sig": sig, "detail": f"{len(labels)} labels for {len(m)} rows"}]
    for i, lab in enumerate(labels):
        want = {c for c, t in zip(cols, m[i]) if t}
        named = set() if lab == "None" or _isnull(lab) else set(str(lab).split(" & "))
        if named != want:
            return [{"monitor": "c20.bools", "sig": sig, "detail": f"row {i} {m[i].astype(int).tolist()} of {len(cols)} columns labelled {lab!r}, true columns are {sorted(want)}"}]
    return []


def _parse_bound(s):
    return float(s)


def check_cut(case, ctx):
    from groupby_lib.util import pretty_cut

    x = np.array([np.nan if v is None else v for v in case["x"]], dtype=case["dtype"]) if case["dtype"].startswith("float") else np.array(case["x"], dtype=case["dtype"])
    bins = case["bins"]
    xin = pd.Series(x, index=np.arange(len(x)) + 3, name="x") if case.get("series") else x
    got = lib.call(pretty_cut, xin, bins)
    sig = f"cut|{np.dtype(case['dtype']).kind}"
    if lib.raised(got):
        return [{"monitor": "c20.raised", "sig": f"{sig}|{type(got.exc).__name__}", "detail": f"pretty_cut({x.tolist()}, {bins}) raised {got!r}"}]
    labs = got.astype(object).tolist() if isinstance(got, pd.Series) else list(got.astype(object))
    is_int = np.dtype(case["dtype"]).kind in "iu" and all(float(b).is_integer() for b in bins) and all(isinstance(b, int) for b in bins)
    sb = sorted(bins)
    for i, (v, lab) in enumerate(zip(x.tolist(), labs)):
        ctx.count("cut_values")
        if isinstance(v, float) and math.isnan(v):
            ctx.count("cut_nulls")
            if not _isnull(lab):
                return [{"monitor": "c20.cut", "sig": sig + "|null", "detail": f"null value got bin {lab!r}"}]
            continue
        if v in bins:
            ctx.count("cut_value_on_edge")
        if _isnull(lab):
            return [{"monitor": "c20.cut", "sig": sig, "detail": f"value {v!r} got no bin (bins {bins})"}]
        lab = str(lab)
        if lab.startswith(" <= "):
            ok = v <= _parse_bound(lab[4:])
        elif lab.startswith(" > "):
            ok = v > _parse_bound(lab[3:])
        elif " - " in lab.strip():
            l, r = lab.split(" - ", 1)
            l, r = _parse_bound(l), _parse_bound(r)
            ok = (l <= v <= r) if is_int else (l < v <= r)
        else:
            ok = float(lab) == v
        if not ok:
            return [{"monitor": "c20.cut", "sig": sig, "detail": f"pretty_cut: value {v!r} assigned to bin {lab!r} (bins {bins}, dtype {case['dtype']})"}]
    return []


CHECKS = {"nanops": check_nanops, "nanops2d": check_nanops2d, "dot": check_dot, "bools_exh": check_bools, "bools_rand": check_bools, "cut": check_cut}


def check(case, ctx):
    return CHECKS[case["part"]](case, ctx)


def gen_nanops(rng):
    n = int(rng.integers(1, 41))
    dtype = gen.pick(rng, ["float64", "float64", "float32", "int64", "int32"])
    vs = gen.gen_vals(rng, n, dtype, magnitude=gen.pick(rng, ["small", "small", "frac", "offset"]) if dtype.startswith("float") else "small",
                      null_mode=gen.pick(rng, ["none", "sparse", "dense", "dense"]))
    vals = vs["vals"]
    if dtype.startswith("float"):
        r = rng.random()
        if r < 0.1:
            vals = [None] * n
        elif r < 0.3 and n >= 4:  # an all-null block
            a = int(rng.integers(0, n - 1))
            b = int(rng.integers(a + 1, n + 1))
            vals = [None if a <= i < b else v for i, v in enumerate(vals)]
    return {"part": "nanops", "n": n, "dtype": dtype, "vals": vals, "threads": [1, 2, 3, 4, 5, 6, 7, 8, None]}


def gen_2d(rng):
    r, c = int(rng.integers(1, 7)), int(rng.integers(1, 7))
    dtype = gen.pick(rng, ["float64", "float32"])
    rows = [[None if rng.random() < 0.2 else float(rng.integers(-9, 10)) for _ in range(c)] for _ in range(r)]
    return {"part": "nanops2d", "n": r * c, "dtype": dtype, "rows": rows, "n_threads": int(rng.integers(1, 5))}


def gen_dot(rng):
    r, c = int(rng.integers(1, 8)), int(rng.integers(1, 6))
    adt = gen.pick(rng, ["float64", "int64", "int32", "float32", "bool", "int8"])
    bdt = gen.pick(rng, ["float64", "int64", "int64", "float64", "int16"])
    a = [int(x) for x in rng.integers(0 if adt == "bool" else -9, 2 if adt == "bool" else 10, size=r * c)]
    b = [float(np.round(x, 2)) if bdt.startswith("float") else int(x) for x in (rng.normal(0, 3, size=c) if bdt.startswith("float") else rng.integers(-9, 10, size=c))]
    return {"part": "dot", "n": r, "shape": [r, c], "a": a, "b": b, "adtype": adt, "bdtype": bdt, "container": gen.pick(rng, ["np", "pd", "pl"]),
            "bcont": gen.pick(rng, ["np", "np", "pd"])}


def gen_bools(rng):
    nc = int(gen.pick(rng, [1, 2, 5, 7, 8, 9, 15, 16, 17, 31, 32, 33, 40, 12, 24]))
    nr = int(rng.integers(1, 8))
    p = gen.pick(rng, [0.1, 0.5, 0.9])
    rows = [[bool(rng.random() < p) for _ in range(nc)] for _ in range(nr)]
    if rng.random() < 0.5:
        rows[0] = [False] * (nc - 1) + [True]  # only the highest bit
    return {"part": "bools_rand", "n": nr, "cols": [f"c{i}" for i in range(nc)], "rows": rows}


def gen_cut(rng):
    is_int = bool(rng.random() < 0.5)
    nb = int(rng.integers(1, 6))
    if is_int:
        bins = sorted({int(x) for x in rng.integers(-10, 30, size=nb)})
        x = [int(v) for v in rng.integers(-15, 35, size=int(rng.integers(1, 25)))]
        x += [int(b) for b in bins] + [int(b) + 1 for b in bins]
        dtype = gen.pick(rng, ["int64", "int32"])
    else:
        bins = sorted({float(np.round(x, int(rng.integers(0, 3)))) for x in rng.uniform(-5, 20, size=nb)})
        x = [float(np.round(v, 2)) for v in rng.uniform(-8, 25, size=int(rng.integers(1, 25)))]
        x += [float(b) for b in bins]
        x = [None if rng.random() < 0.1 else v for v in x]
        dtype = "float64"
    if rng.random() < 0.3:
        bins = list(reversed(bins))
    return {"part": "cut", "n": len(x), "dtype": dtype, "x": x, "bins": bins, "series": bool(rng.random() < 0.4)}


def run(ctx):
    part = PARTS[ctx.shard % len(PARTS)]
    rng = gen.rng_for(ctx.seed, "C20", ctx.shard, 1 if ctx.mode != "prod" else 0)
    ncases = N_CASES[ctx.tier] if ctx.mode == "prod" else max(100, N_CASES[ctx.tier] // 4)
    if part == "bools_exh":
        for nc in (1, 2, 3):
            for nr in range(1, 5):
                for bits in itertools.product([False, True], repeat=nc * nr):
                    rows = [list(bits[i * nc:(i + 1) * nc]) for i in range(nr)]
                    ctx.run_case({"part": "bools_exh", "n": nr, "cols": [f"c{i}" for i in range(nc)], "rows": rows}, check, features, nontrivial)
        ctx.counters["bools_exhaustive_frames"] = ctx.n_eval
        return
    g = {"nanops": gen_nanops, "nanops2d": gen_2d, "dot": gen_dot, "bools_rand": gen_bools, "cut": gen_cut}[part]
    if part == "nanops":
        ncases = max(200, ncases // 4)
        if ctx.shard == 0 and ctx.mode == "prod":
            # the default thread choice (n_threads=None) switches at multiples of 2,000,000 elements: real sizes on both sides
            sizes = [1_999_999, 2_000_000, 4_000_001, 6_000_000] + ([3_999_999, 4_000_000, 8_000_003, 12_000_000] if ctx.tier == "thorough" else [])
            for j, size in enumerate(sizes):
                for dtype in (["float64", "int64"] if ctx.tier == "quick" else ["float64", "float32", "int64", "int32"]):
                    if dtype == "float32" and size > 4_000_001:
                        continue  # float32 sums of more than 2**24 small integers are no longer exact in either implementation
                    case = {"part": "nanops", "n": size, "dtype": dtype, "vals": [], "threads": [None, 3], "noshrink": True,
                            "big": {"seed": int(ctx.seed) * 100 + j, "null_p": 0.1, "null_prefix": size // 3 if j % 2 else 0}}
                    ctx.run_case(case, check, features, nontrivial)
    for _ in range(ncases):
        ctx.run_case(g(rng), check, features, nontrivial)
