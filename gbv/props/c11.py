"""C11 - result labelling, order and shape are determined by the inputs (reference ordering + column independence)."""
import numpy as np
import pandas as pd

from .. import cmp, gen, lib, model, ops
from . import common

LEVEL = "exploration"
RULE = ("seeded random groupings (1-3 keys; int/float/str/bool/datetime/categorical with unused categories and non-lexical "
        "category order; any first-appearance order; named and unnamed keys given as arrays, Series, list or dict; value and key labels that are strings, integers from 0 or False) x values "
        "given as array / named Series / list / dict / DataFrame / 2-D ndarray (1-3 columns) x sort on/off x observed_only "
        "on/off x masks x 8 reductions. Checked: one index level per key, level names = key names, label order (ascending, "
        "category order, first appearance), only observed labels (or every label the grouping reports, unobserved ones "
        "neutral), Series vs DataFrame, Series name, column labels and order, and every column equal to the single-input "
        "call. distinct = case digests; non-trivial = >= 2 labels and first appearance differs from sorted order or a label "
        "is unobserved")
ASSUMPTIONS = [
    "'every label' under observed_only=False means the labels the grouping itself reports (all categories, both booleans, the key "
    "combinations present in the data)",
    "names of unnamed inputs (and the column labels derived from them) are not asserted",
    "expected ascending order: Python ordering of the label tuples, category position for categoricals",
]
SHAPES = ["array", "series", "list", "dict", "frame", "2d"]
N_CASES = {"quick": 700, "thorough": 8000}


def plan(tier):
    return common.std_plan(tier)


def required_counters(tier):
    return ["unsorted_first_appearance", "unused_category", "observed_only_false", "sort_false", "multi_column", "column_independence_checked",
            "names_checked", "complement_mask_second_call", "non_string_value_label", "falsy_value_label", "unobserved_label", "observed_chunked_keys"] + [f"shape:{s}" for s in SHAPES]


def features(case):
    f = [f"op={case['op']}|shape={case['shape']}|sort={case['sort']}|obs={case['observed_only']}|keys={'+'.join(k['kind'] for k in case['keys'])}"]
    lk = common.lkeys_ns(case["keys"])
    first = list(model.group_rows(lk))
    if first != gen.sort_labels(common.keyspecs_ns(case["keys"]), first):
        f.append("unsorted_first_appearance")
    for k in case["keys"]:
        if k["kind"] == "cat" and set(k["cats"]) - set(v for v in k["vals"] if v is not None):
            f.append("unused_category")
            break
    sel = gen.mask_selection(case["mask"], case["n"])
    if len(model.group_rows(lk, sel)) < len(model.group_rows(lk)):
        f.append("unobserved_label")
    return f


def nontrivial(case):
    f = features(case)
    lk = common.lkeys_ns(case["keys"])
    return len({k for k in lk if k is not None}) >= 2 and ("unsorted_first_appearance" in f or "unobserved_label" in f or "unused_category" in f)


def build_values(case, idx=None):
    arrs = []
    for j, vs in enumerate(case["vals"]):
        a = gen.val_np(vs)
        arrs.append(a)
    names = [vs.get("name") for vs in case["vals"]]
    shape = case["shape"]
    if shape == "array":
        return arrs[0], [None]
    if shape == "series":
        return pd.Series(arrs[0], name=names[0], index=idx), [names[0]]
    if shape == "list":
        return [pd.Series(a, name=nm, index=idx) if nm is not None else a for a, nm in zip(arrs, names)], names
    if shape == "dict":
        keys = [nm if nm is not None else f"col{j}" for j, nm in enumerate(names)]
        return dict(zip(keys, arrs)), keys
    if shape == "frame":
        keys = [nm if nm is not None else f"col{j}" for j, nm in enumerate(names)]
        return pd.DataFrame(dict(zip(keys, arrs)), index=idx), keys
    if shape == "2d":
        return np.column_stack([a.astype("float64") for a in arrs]), [None] * len(arrs)
    raise KeyError(shape)


def build_keys(case):
    arrs = []
    for k in case["keys"]:
        a = gen.key_array(k, "np")
        if k.get("name") is not None:
            a = pd.Series(a, name=k["name"])
        arrs.append(a)
    how = case.get("keys_as", "list")
    if len(arrs) == 1 and how != "dict":
        return arrs[0]
    if how == "dict":
        return {(k["name"] if k.get("name") is not None else f"key{i}"): gen.key_array(k, "np") for i, k in enumerate(case["keys"])}
    return arrs


def check(case, ctx):
    from groupby_lib import GroupBy

    fails = []
    op, n = case["op"], case["n"]
    ctx.count(f"shape:{case['shape']}")
    if not case["sort"]:
        ctx.count("sort_false")
    if not case["observed_only"]:
        ctx.count("observed_only_false")
    lk = common.lkeys_ns(case["keys"])
    ks_ns = common.keyspecs_ns(case["keys"])
    keys_obj = build_keys(case)
    gb = lib.call(GroupBy, keys_obj, sort=case["sort"])
    if lib.raised(gb):
        return [{"monitor": "c11.raised", "sig": "construct", "detail": f"GroupBy raised {gb!r}"}]
    if getattr(gb, "key_is_chunked", False):
        ctx.count("observed_chunked_keys")
    values, colnames = build_values(case)
    if any(c is not None and not isinstance(c, str) for c in colnames):
        ctx.count("non_string_value_label")
    if any(c is not None and not c for c in colnames):
        ctx.count("falsy_value_label")
    mask = gen.mask_obj(case["mask"])
    kw = {"observed_only": False} if not case["observed_only"] else {}
    if op == "size":
        res = lib.call(gb.size, mask=mask, **kw)
    else:
        res = lib.call(getattr(gb, op), values, mask=mask, **kw)
    sig = f"{op}|{case['shape']}"
    if lib.raised(res):
        return [{"monitor": "c11.raised", "sig": f"{sig}|{type(res.exc).__name__}", "detail": f"{op}(values as {case['shape']}, observed_only={case['observed_only']}) raised {res!r}"}]
    ncols = len(case["vals"])
    # ---- Series vs DataFrame, names, columns
    want_series = op == "size" or case["shape"] in ("array", "series")
    if want_series != isinstance(res, pd.Series):
        return [{"monitor": "c11.shape", "sig": sig, "detail": f"{op} with values as {case['shape']} ({ncols} columns) returned {type(res).__name__}"}]
    if isinstance(res, pd.Series):
        if op != "size" and case["shape"] == "series" and colnames[0] is not None:
            ctx.count("names_checked")
            if res.name != colnames[0] or (type(res.name) is str) != (type(colnames[0]) is str):
                fails.append({"monitor": "c11.name", "sig": sig, "detail": f"{op}: Series named {res.name!r}, input named {colnames[0]!r}"})
    else:
        ctx.count("multi_column")
        if res.shape[1] != ncols:
            return [{"monitor": "c11.shape", "sig": sig, "detail": f"{op}: {res.shape[1]} columns for {ncols} inputs"}]
        if all(c is not None for c in colnames):
            ctx.count("names_checked")
            if [(type(c) is str, c) for c in res.columns] != [(type(c) is str, c) for c in colnames]:
                fails.append({"monitor": "c11.columns", "sig": sig, "detail": f"{op}: columns {list(res.columns)} but inputs were {colnames}"})
    # ---- index levels and names
    idx = res.index
    nk = len(case["keys"])
    if idx.nlevels != nk:
        return fails + [{"monitor": "c11.levels", "sig": sig, "detail": f"{op}: {idx.nlevels} index levels for {nk} keys"}]
    knames = [k.get("name") for k in case["keys"]]
    if case.get("keys_as") == "dict":
        knames = [(k["name"] if k.get("name") is not None else f"key{i}") for i, k in enumerate(case["keys"])]
    for lvl, nm in enumerate(knames):
        if nm is not None:
            ctx.count("names_checked")
            if idx.names[lvl] != nm:
                fails.append({"monitor": "c11.names", "sig": sig, "detail": f"{op}: index level {lvl} named {idx.names[lvl]!r}, key named {nm!r}"})
                break
    # ---- which labels, in which order
    labels = cmp.labels_of(idx)
    sel = gen.mask_selection(case["mask"], n)
    observed = model.group_rows(lk, sel)
    reported = cmp.labels_of(gb.result_index)
    if len(set(labels)) != len(labels):
        return fails + [{"monitor": "c11.labels", "sig": sig, "detail": f"duplicate labels {labels}"}]
    if case["observed_only"]:
        if set(labels) != set(observed):
            return fails + [{"monitor": "c11.labels", "sig": sig + "|observed", "detail": f"{op}: labels {sorted(set(labels) ^ set(observed), key=repr)[:4]} differ from the labels with a selected row"}]
    else:
        if set(labels) != set(reported) or not set(observed) <= set(labels):
            return fails + [{"monitor": "c11.labels", "sig": sig + "|all", "detail": f"{op}(observed_only=False): labels {sorted(set(labels) ^ set(reported), key=repr)[:4]} differ from the grouping's labels"}]
    single_cat = nk == 1 and case["keys"][0]["kind"] == "cat"
    if case["sort"] or single_cat:
        want = gen.sort_labels(ks_ns, labels)
        how = "ascending key order"
    else:
        first_all = list(model.group_rows(lk))
        pos = {l: i for i, l in enumerate(first_all)}
        if all(l in pos for l in labels):
            want = sorted(labels, key=lambda l: pos[l])
            how = "first-appearance order"
        else:
            want = None  # labels without any row (unused categories): position not defined by the data
    if want is not None and labels != want:
        fails.append({"monitor": "c11.order", "sig": f"{op}|sort={case['sort']}|{'+'.join(k['kind'] for k in case['keys'])}", "detail": f"{op}(sort={case['sort']}): labels {labels[:8]} not in {how} {want[:8]}"})
    # ---- neutral values for unobserved labels
    if not case["observed_only"]:
        cols = [res] if isinstance(res, pd.Series) else [res[c] for c in res.columns]
        for col in cols:
            vals = cmp.col_py(col)
            for l, v in zip(labels, vals):
                if l not in observed and not ops.is_neutral(v, op, col.dtype):
                    fails.append({"monitor": "c11.neutral", "sig": sig, "detail": f"{op}(observed_only=False): unobserved label {l!r} carries {v!r}"})
                    break
    # ---- column independence
    if isinstance(res, pd.DataFrame) and not fails:
        for j, vs in enumerate(case["vals"]):
            a = gen.val_np(vs)
            if case["shape"] == "2d":
                a = a.astype("float64")
            one = lib.call(getattr(gb, op), a, mask=mask, **kw)
            ctx.count("column_independence_checked")
            if lib.raised(one):
                fails.append({"monitor": "c11.column", "sig": sig + "|raised", "detail": f"{op} on column {j} alone raised {one!r}"})
                break
            d = ops.diff_red(ops.normalise(res.iloc[:, j], "red"), ops.normalise(one, "red"), 0.0, what=f"{op}: column {j} of the {case['shape']} result vs the single-input call")
            if d:
                fails.append({"monitor": "c11.column", "sig": sig, "detail": d})
                break
            if list(res.iloc[:, j].index) != list(one.index) and cmp.labels_of(res.index) != cmp.labels_of(one.index):
                fails.append({"monitor": "c11.column", "sig": sig + "|order", "detail": f"{op}: column {j} label order differs from the single-input call"})
                break
    # ---- the listed labels follow the mask's CONTENTS: same grouping, same mask buffer refilled in place with the complementary rows
    if not fails and case["observed_only"] and isinstance(mask, np.ndarray) and mask.dtype == bool and op != "size":
        sel2 = [i for i in range(n) if not mask[i]]
        np.logical_not(mask, out=mask)
        res2 = lib.call(getattr(gb, op), values, mask=mask)
        np.logical_not(mask, out=mask)
        ctx.count("complement_mask_second_call")
        if lib.raised(res2):
            if sel2 and model.group_rows(lk, sel2):
                fails.append({"monitor": "c11.raised", "sig": sig + "|second_call", "detail": f"{op}: the second call on the same grouping (complementary mask) raised {res2!r}"})
        else:
            got2, want2 = set(cmp.labels_of(res2.index)), set(model.group_rows(lk, sel2))
            if got2 != want2:
                fails.append({"monitor": "c11.labels", "sig": sig + "|second_call", "detail": f"{op}: second call on the same grouping with the mask buffer refilled (complementary rows): labels "
                                                                                          f"{sorted(got2 ^ want2, key=repr)[:4]} differ from the labels with a selected row"})
    return fails


def _value_name(rng, j):
    """labels of value inputs: mostly strings, but also the labels pandas itself hands out (integers from 0, as in
    pd.DataFrame(ndarray)), and False - falsy labels are still labels"""
    r = rng.random()
    if r < 0.5:
        return f"c{j}"
    if r < 0.7:
        return None
    if r < 0.9:
        return j
    return False if j == 0 else j + 5  # not "": get_array_name documents (and the suite asserts) that an empty name means unnamed


def gen_case(rng, dtypes):
    n = int(rng.integers(1, 41))
    nk = gen.pick(rng, [1, 1, 1, 2, 2, 3])
    keys = [gen.gen_key(rng, n, name=gen.pick(rng, [None, f"k{i}", f"k{i}", f"k{i}", i + 10 * int(rng.integers(0, 2))])) for i in range(nk)]
    lk = common.lkeys_ns(keys)
    op = gen.pick(rng, ops.RED)
    shape = gen.pick(rng, SHAPES) if op != "size" else "array"
    ncols = 1 if shape in ("array", "series") else int(rng.integers(1, 4))
    vals = []
    for j in range(ncols):
        dtype = gen.pick(rng, dtypes)
        if shape == "2d":
            dtype = "float64"
        if np.dtype(dtype).kind == "M" and op == "sum":
            dtype = "float64"
        vs = gen.gen_vals(rng, n, dtype, magnitude="small" if np.dtype(dtype).kind in "iuf" else None, name=_value_name(rng, j) if shape in ("list", "dict", "frame", "series") else None)
        vs.pop("tz", None)
        vals.append(vs)
    if shape in ("dict", "frame"):
        for j, vs in enumerate(vals):
            vs["name"] = vs["name"] if vs["name"] is not None else f"col{j}"
    case = {"n": n, "keys": keys, "vals": vals, "val": vals[0], "mask": gen.gen_mask(rng, n, kind=gen.pick(rng, ["none", "none", "bool", "slice"]), lkeys=lk),
            "op": op, "shape": shape, "sort": bool(rng.random() < 0.65), "observed_only": bool(rng.random() < 0.7),
            "keys_as": gen.pick(rng, ["list", "list", "dict"]) if nk > 1 or rng.random() < 0.1 else "list", "params": {}}
    if nk == 1 and keys[0]["kind"] != "cat" and n >= 4 and rng.random() < 0.2:
        # labels, names and order must not depend on the route: chunk-wise factorization (scaled threshold, applied by the worker)
        case["strategy"] = {"chunk_threshold": int(gen.pick(rng, [2, 4])), "key_chunks": int(rng.integers(2, 6))}
    return case


def run(ctx):
    dtypes = common.ALL_DTYPE_SHARDS[ctx.shard % len(common.ALL_DTYPE_SHARDS)]
    rng = gen.rng_for(ctx.seed, "C11", ctx.shard, 1 if ctx.mode != "prod" else 0)
    ncases = N_CASES[ctx.tier] if ctx.mode == "prod" else max(50, N_CASES[ctx.tier] // 3)
    for _ in range(ncases):
        ctx.run_case(gen_case(rng, dtypes), check, features, nontrivial)
