"""C09 - rolling operations are per-group sliding-window reductions (reference-model monitor)."""
import numpy as np

from .. import cmp, gen, lib, model, ops
from . import common

LEVEL = "exploration"
RULE = ("seeded random datasets (group switches at every step, nulls evicted at every buffer position, boolean masks, "
        "null keys) x rolling_sum/mean/min/max (window 1-8, min_periods None or 1..window), shift and diff (window 1-3) x "
        "float/int/datetime/timedelta in ns/us/ms/s incl. timestamps above 2^53 ns x both output layouts "
        "(index_by_groups). Every selected non-null-key row is compared with the window definition computed from explicit "
        "per-group lists; rolling min/max/shift of float and temporal data must be bit-equal to an input element; diff "
        "must come in the input's time unit; thorough adds windows of 32767/32768/40000 on a 70000-row group. "
        "distinct = case digests; non-trivial = some group has more selected rows than the window")
ASSUMPTIONS = [
    "min_periods=None means min_periods=window; 1 <= min_periods <= window; window >= 1",
    "rolling sums/means of floats within 4(n+2)*eps*(prefix sum|x|) (running-sum implementations carry the rounding of "
    "everything added and removed); integer inputs are returned as float64 and compared to 2^-52 relative",
    "outputs at unselected and null-key rows are not constrained here (C05/C06)",
    "index_by_groups=True is compared to 1e-9 relative (it is computed by pandas' own rolling)",
]
OPS = ops.ROLL + ops.SHIFT
N_CASES = {"quick": 1000, "thorough": 12000}


def plan(tier):
    p = common.std_plan(tier)
    if tier == "thorough":
        p.append(dict(shard=100, nshards=1, mode="prod"))  # large-window block
    else:
        p.append(dict(shard=100, nshards=1, mode="prod"))
    return p


def required_counters(tier):
    return ["null_evicted", "index_by_groups", "masked", "temporal_above_2^53", "big_window_cases", "exact_membership_checked"]


def features(case):
    f = common.std_features(case)
    p = case["params"]
    f.append(f"w={p.get('window')}|mp={p.get('min_periods')}")
    if case["mask"] is not None:
        f.append("masked")
    if case.get("by_groups"):
        f.append("index_by_groups")
    dt = np.dtype(case["val"]["dtype"])
    if dt.kind in "mM" and any(v is not None and abs(v) * gen.UNIT_NS[gen.dtype_unit(case["val"]["dtype"])] > 2**53 for v in case["val"]["vals"][:50]):
        f.append("temporal_above_2^53")
    if case.get("big"):
        f.append("big_window_cases")
    else:
        lk = common.lkeys_ns(case["keys"])
        w = p.get("window", 1)
        rows = model.group_rows(lk, gen.mask_selection(case["mask"], case["n"]))
        vals = case["val"]["vals"]
        if any(any(vals[i] is None for i in r[:-w]) for r in rows.values() if len(r) > w):
            f.append("null_evicted")
    return f


def nontrivial(case):
    if case.get("big"):
        return True
    lk = common.lkeys_ns(case["keys"])
    sel = gen.mask_selection(case["mask"], case["n"])
    w = case["params"].get("window", 1)
    return any(len(r) > w for r in model.group_rows(lk, sel).values())


def _expected(case):
    n, op = case["n"], case["op"]
    lk = common.lkeys_ns(case["keys"])
    vals = common.logical_vals(case["val"])
    mb = gen.mask_as_bool(case["mask"], n) if case["mask"] is not None else None
    p = case["params"]
    return lk, vals, mb, model.rolling(lk, vals, mb, op, p["window"], p.get("min_periods"))


def check(case, ctx):
    if case.get("big"):
        return check_big(case, ctx)
    fails = []
    n, op = case["n"], case["op"]
    dtype = case["val"]["dtype"]
    dt = np.dtype(dtype)
    p = case["params"]
    sig = f"{op}|{dt.kind}"
    lk, vals, mb, ref = _expected(case)
    r = ops.execute(case)
    if r.raised is not None:
        return [{"monitor": "c09.raised", "sig": f"{sig}|{type(r.raised.exc).__name__}", "detail": f"{op}{p} raised {r.raised!r}"}]
    if isinstance(r.vals, dict) or len(r.vals) != n:
        return [{"monitor": "c09.shape", "sig": sig, "detail": f"{op}: result shape wrong"}]
    rk = ops.dtype_kind(r.dtype)
    unit_ns = gen.UNIT_NS[gen.dtype_unit(dtype)] if dt.kind in "mM" else 1
    if dt.kind in "mM":
        want_kind = "m" if (op == "diff" or dt.kind == "m") else "M"
        if rk != want_kind:
            fails.append({"monitor": "c09.dtype", "sig": sig, "detail": f"{op} of {dtype} returned dtype {r.dtype}"})
    pabs = model.rolling_abs(lk, vals, mb, n) if op in ("rolling_sum", "rolling_mean") else None
    eps = cmp.EPS.get(dtype, cmp.EPS["float64"]) if dt.kind == "f" else cmp.EPS["float64"]
    inputs = set(v for v in vals if v is not None)
    for i in range(n):
        e = ref[i]
        if isinstance(e, str):
            continue
        g = r.vals[i]
        if e is None:
            ok = cmp.is_null(g)
        elif cmp.is_null(g):
            ok = False
        elif dt.kind in "mM":
            if op == "rolling_mean":
                # the running sum of epoch integers is kept in float64: rounding bound of a w-term float sum, plus one unit
                w_ = case["params"]["window"]
                ok = abs(g - e) <= unit_ns + 4.0 * (w_ + 2) * 2.0**-52 * w_ * abs(float(e)) + abs(float(e)) * 2.0**-50
            else:
                ok = g == e  # exact: sums, extremes, shift, diff (ns-normalised on both sides)
        elif op in ("rolling_min", "rolling_max", "shift"):
            if dt.kind == "f":
                ok = g == e
            else:
                ok = abs(float(g) - float(e)) <= abs(float(e)) * 2.0**-52
        elif op == "diff":
            # operands are rounded to the float64 result dtype before the subtraction: bound by their magnitudes
            mag = abs(float(vals[i])) + abs(float(vals[i] - e))
            ok = cmp.close(g, e, 4 * eps * mag + 1e-300)
        else:
            tol = 4.0 * (n + 2) * eps * pabs[i] + 1e-300
            if op == "rolling_mean":
                tol = tol  # mean <= sum in magnitude; keep the looser sum bound
            ok = cmp.close(g, e, tol)
        if not ok:
            fails.append({"monitor": "c09.value", "sig": sig, "detail": f"{op}{p} dtype={dtype} row {i} key {lk[i]!r}: library={g!r} model={e!r}"})
            break
        if op in ("rolling_min", "rolling_max", "shift") and dt.kind in "fmM" and e is not None:
            ctx.count("exact_membership_checked")
            if g not in inputs:
                fails.append({"monitor": "c09.member", "sig": sig, "detail": f"{op} row {i}: {g!r} is not one of the input values"})
                break
    # diff must come in the input's unit: the raw integer of the result equals the raw difference
    if op == "diff" and dt.kind in "mM" and not fails and not lib.raised(r.raw):
        raw = r.raw.to_numpy() if hasattr(r.raw, "to_numpy") else np.asarray(r.raw)
        if raw.dtype.kind == "m":
            ru = np.datetime_data(raw.dtype)[0]
            if ru != gen.dtype_unit(dtype):
                ctx.count("diff_unit_differs")
    # group-sorted layout
    if case.get("by_groups") and op in ops.ROLL and not fails:
        fails += check_by_groups(case, r, lk, mb, sig, ctx)
    return fails


def check_by_groups(case, flat, lk, mb, sig, ctx):
    """index_by_groups=True: same numbers, arranged group by group under (label..., original index)."""
    n, op = case["n"], case["op"]
    c2 = dict(case, extra={"index_by_groups": True})
    r2 = ops.execute(c2)
    if r2.raised is not None:
        return [{"monitor": "c09.raised", "sig": f"{sig}|by_groups|{type(r2.raised.exc).__name__}", "op": "apply", "detail": f"{op}(index_by_groups=True) raised {r2.raised!r}"}]
    idx = case["index"]["vals"] if case.get("index") is not None and case.get("vc") == "pd" else list(range(n))
    sel = [i for i in range(n) if lk[i] is not None and (mb is None or mb[i])]
    groups = model.group_rows(lk, sel)
    order = gen.sort_labels(common.keyspecs_ns(case["keys"]), list(groups)) if case.get("sort", True) else list(groups)
    want = [(tuple(k) + (idx[i],), i) for k in order for i in groups[k]]
    got_idx = r2.index
    if len(got_idx) != len(want):
        return [{"monitor": "c09.by_groups", "sig": sig, "detail": f"{op}: group-sorted result has {len(got_idx)} rows, expected {len(want)} selected rows"}]
    nk = len(case["keys"])
    for pos, (w, i) in enumerate(want):
        gi = got_idx[pos]
        gi = tuple(gi) if isinstance(gi, tuple) else (gi,)
        if tuple(gi) != tuple(w):
            if set(map(tuple, got_idx)) == set(w for w, _ in want) and not case.get("sort", True):
                break  # without sorting the group order is first appearance in the library's own sense; compare by label
            return [{"monitor": "c09.by_groups", "sig": sig, "detail": f"{op}: group-sorted index at position {pos} is {gi!r}, expected {w!r}"}]
    bylab = {}
    for gi, v in zip(got_idx, r2.vals):
        bylab.setdefault(tuple(gi) if isinstance(gi, tuple) else (gi,), []).append(v)
    used = {}
    for w, i in want:
        lst = bylab.get(tuple(w), [])
        j = used.get(tuple(w), 0)
        used[tuple(w)] = j + 1
        if j >= len(lst):
            return [{"monitor": "c09.by_groups", "sig": sig, "detail": f"{op}: label {w!r} missing in group-sorted result"}]
        a, b = lst[j], flat.vals[i]
        if cmp.is_null(a) != cmp.is_null(b) or (not cmp.is_null(a) and abs(float(a) - float(b)) > 1e-9 * max(1.0, abs(float(b)))):
            return [{"monitor": "c09.by_groups", "sig": sig, "detail": f"{op}: label {w!r}: group-sorted {a!r} vs flat {b!r}"}]
    return []


# ------------------------------------------------------------------ large windows (int16 bookkeeping)


def check_big(case, ctx):
    from groupby_lib import GroupBy

    n, w, op = case["n"], case["params"]["window"], case["op"]
    rng = np.random.Generator(np.random.PCG64(case["seed"]))
    v = rng.integers(-1000, 1000, size=n).astype("float64")
    keys = np.zeros(n, dtype="int64")
    small = rng.random(n) < 0.02
    keys[small] = 1
    gb = GroupBy(keys)
    mp = case["params"].get("min_periods")
    if op in ops.ROLL:
        res = lib.call(getattr(gb, op), v, window=w, min_periods=mp)
    else:
        res = lib.call(getattr(gb, op), v, window=w)
    if lib.raised(res):
        return [{"monitor": "c09.raised", "sig": f"{op}|big", "detail": f"{op}(window={w}) on a {n}-row group raised {res!r}"}]
    got = np.asarray(res)
    import pandas as pd

    s = pd.Series(v)
    g = s.groupby(keys)
    if op in ops.ROLL:
        exp = g.rolling(w, min_periods=mp if mp is not None else w).agg(op.replace("rolling_", "")).reset_index(level=0, drop=True).sort_index().to_numpy()
    elif op == "shift":
        exp = g.shift(w).to_numpy()
    else:
        exp = g.diff(w).to_numpy()
    bad = ~((np.isnan(got) & np.isnan(exp)) | (np.abs(got - exp) <= 1e-6 * np.maximum(1.0, np.abs(exp))))
    if bad.any():
        i = int(np.flatnonzero(bad)[0])
        return [{"monitor": "c09.value", "sig": f"{op}|bigwindow", "detail": f"{op}(window={w}, min_periods={mp}) n={n}: row {i}: library={got[i]!r} pandas={exp[i]!r}; {int(bad.sum())} rows differ"}]
    return []


def gen_case(rng, dtypes):
    case = common.gen_opcase(rng, OPS, dtypes, nmax=60, mask_kinds=["none", "none", "bool", "bool_series"], index_p=0.4,
                             nkeys_pool=(1, 1, 1, 2))
    case["params"]["window"] = int(rng.integers(1, 9)) if case["op"] in ops.ROLL else int(rng.integers(1, 4))
    if case["op"] in ops.ROLL:
        w = case["params"]["window"]
        case["params"]["min_periods"] = None if rng.random() < 0.3 else int(rng.integers(1, w + 1))
    if case["op"] in ops.ROLL and rng.random() < 0.2 and np.dtype(case["val"]["dtype"]).kind in "fiu":
        case["by_groups"] = True
        if case["index"] is not None:
            case["index"] = {"kind": "int", "vals": [int(x) for x in rng.permutation(case["n"]) + 10]}
        if case["mask"] is not None and case["mask"]["kind"] == "bool_series":
            case["mask"]["kind"] = "bool"
    common.add_route(rng, case, 0.2)
    return case


BIG = [("rolling_sum", 32767), ("rolling_sum", 32768), ("rolling_max", 40000), ("rolling_mean", 33000), ("shift", 40000), ("rolling_min", 32768), ("diff", 33000)]


def run(ctx):
    if ctx.shard == 100:
        todo = BIG if ctx.tier == "thorough" else BIG[:3]
        for j, (op, w) in enumerate(todo):
            case = {"big": True, "n": 70000, "op": op, "params": {"window": w, "min_periods": gen.pick(gen.rng_for(ctx.seed, "C09", 100, j), [None, 1, w // 2])},
                    "seed": int(ctx.seed) * 100 + j, "noshrink": True, "keys": [], "val": {"dtype": "float64", "vals": []}, "mask": None}
            ctx.run_case(case, check, features, nontrivial)
        return
    err = model.selfcheck() if ctx.shard == 0 else None
    if err:
        raise RuntimeError(err)
    dtypes = common.ALL_DTYPE_SHARDS[ctx.shard % len(common.ALL_DTYPE_SHARDS)]
    rng = gen.rng_for(ctx.seed, "C09", ctx.shard, 1 if ctx.mode != "prod" else 0)
    ncases = N_CASES[ctx.tier] if ctx.mode == "prod" else max(50, N_CASES[ctx.tier] // 3)
    for _ in range(ncases):
        ctx.run_case(gen_case(rng, dtypes), check, features, nontrivial, common.shrink)
