"""C01 - group reductions equal the per-group definition (reference-model monitor)."""
import numpy as np

from .. import cmp, gen, lib, model
from . import common

LEVEL = "exploration"
RULE = ("seeded random logical datasets (1-3 keys x value dtype x mask kind x 8 reductions, hostile layouts and null "
        "placements) poured into numpy/pandas containers, a quarter of the single-key cases on the chunk-wise, pre-chunked "
        "Arrow or multi-thread route (scaled thresholds); every GroupBy result is compared label by label with a "
        "pure-Python reference model; plus one group of 65536 / 70000 rows (thorough: 32768 .. 1,100,000) interleaved with "
        "two small ones, every reduction against NumPy on the group's selected rows. distinct = distinct case digests; non-trivial = at least 2 rows with a non-null "
        "key and at least one selected row")
ASSUMPTIONS = [
    "reference model (gbv/model.py) is the specification; it is cross-checked against pandas at start-up",
    "floating sums/means compared within 4(n+2)*eps*sum|x| (eps of the input dtype); everything else exact",
    "sum of datetimes is not driven (meaningless); integer cases are generated so that exact sums fit in 64 bits",
    "int64-min as integer null sentinel is only driven in the dedicated sentinel class",
]

SHARD_DTYPES = [
    ["float64"], ["float32", "bool"], ["int64", "uint8"], ["int32", "uint64"], ["int16", "uint32"], ["int8", "uint16"],
    ["datetime64[ns]", "timedelta64[us]"], ["datetime64[us]", "timedelta64[ns]"], ["datetime64[s]", "timedelta64[s]", "datetime64[ms]"],
    ["float64", "int64"], ["float64", "datetime64[ns]"], ["float64", "int32"],
]
N_CASES = {"quick": 1500, "thorough": 18000}


def plan(tier):
    n = len(SHARD_DTYPES)
    p = [dict(shard=i, nshards=n, mode="prod") for i in range(n)]
    p.append(dict(shard=0, nshards=n, mode="bounds"))
    if tier == "thorough":
        p += [dict(shard=i, nshards=n, mode="bounds") for i in range(1, n)]
    p.append(dict(shard=100, nshards=1, mode="prod"))
    return p


BIG_SIZES = {"quick": [65536, 70000], "thorough": [32768, 65535, 65536, 65537, 70000, 200000, 1_100_000]}


def check_big(case, ctx):
    """one group of `size` rows interleaved with two small ones (counts / positions beyond 16-bit ranges), against NumPy on each
    group's selected rows.  Small integer values: sums are exact in every dtype."""
    import math

    from groupby_lib import GroupBy

    size, op, dtype = case["size"], case["op"], case["val"]["dtype"]
    rng = np.random.Generator(np.random.PCG64(case["seed"]))
    n = size + 600
    keys = np.zeros(n, dtype="int64")
    small = rng.choice(n, size=600, replace=False)
    keys[small[:300]] = 1
    keys[small[300:]] = 2
    vals = rng.integers(-9, 10, size=n).astype(dtype)
    if np.dtype(dtype).kind == "f":
        vals[rng.random(n) < 0.01] = np.nan
    mask = (rng.random(n) < 0.999) if case["masked"] else None
    gb = lib.call(GroupBy, keys)
    res = lib.call(gb.size, mask=mask) if op == "size" else lib.call(getattr(gb, op), vals, mask=mask)
    sig = f"{op}|big|{np.dtype(dtype).kind}"
    if lib.raised(res):
        return [{"monitor": "c01.raised", "sig": sig, "detail": f"{op} on a group of {size} rows raised {res!r}"}]
    sel_all = np.ones(n, bool) if mask is None else mask
    for g in (0, 1, 2):
        idx = np.flatnonzero((keys == g) & sel_all)
        v = vals[idx].astype("float64")
        nn = v[~np.isnan(v)]
        exp = {"size": float(len(idx)), "count": float(len(nn)), "sum": float(nn.sum()), "mean": float(nn.mean()), "min": float(nn.min()), "max": float(nn.max()),
               "first": float(nn[0]), "last": float(nn[-1])}[op]
        got = float(res.loc[g])
        if not (got == exp or (op == "mean" and math.isclose(got, exp, rel_tol=1e-12, abs_tol=1e-12))):
            return [{"monitor": "c01.value", "sig": sig, "detail": f"{op}(dtype={dtype}, masked={case['masked']}) label {g} with {len(idx)} selected rows: library={got!r} numpy={exp!r}"}]
    ctx.count("big_group_calls")
    return []


def required_counters(tier):
    return ["allnull_group", "emptied_group", "unsorted_first_appearance", "multi_key", "observed_chunked_keys", "observed_multi_thread", "big_group_calls"]


def gen_case(rng, dtypes):
    n = int(rng.integers(1, 41)) if rng.random() < 0.9 else int(rng.integers(200, 3000))
    nkeys = gen.pick(rng, [1, 1, 1, 2, 2, 3])
    keys = [gen.gen_key(rng, n, name=gen.pick(rng, [None, f"k{i}"])) for i in range(nkeys)]
    lk = common.lkeys_ns(keys)
    dtype = gen.pick(rng, dtypes)
    op = gen.pick(rng, common.REDUCTIONS)
    if np.dtype(dtype).kind == "M" and op == "sum":
        op = gen.pick(rng, ["mean", "min", "max", "first", "last", "count"])
    val = gen.gen_vals(rng, n, dtype, name=gen.pick(rng, [None, "v"]))
    if val["null_mode"] == "allnull_group":
        gen.null_out_group(val, lk, rng)
    mask = gen.gen_mask(rng, n, lkeys=lk)
    case = {"n": n, "keys": keys, "val": val, "mask": mask, "op": op, "sort": bool(rng.random() < 0.8),
            "vc": gen.pick(rng, ["np", "np", "pd"])}
    if np.dtype(dtype).kind in "iu" and op in ("sum", "mean"):
        if not common.int_sum_in_range(lk, common.logical_vals(val), gen.mask_selection(mask, n), dtype):
            case["val"] = gen.gen_vals(rng, n, dtype, magnitude="small")
    # the definition must hold on every route: a quarter of the single-key cases take the chunk-wise / multi-thread /
    # pre-chunked Arrow routes (scaled thresholds), where masks and observed-label filters are resolved per chunk
    r = rng.random()
    if nkeys == 1 and keys[0]["kind"] != "cat" and n >= 4:
        if r < 0.12:
            case["strategy"] = {"chunk_threshold": int(gen.pick(rng, [2, 4])), "key_chunks": int(rng.integers(2, 6))}
        elif r < 0.2 and keys[0]["kind"] != "bool":
            case["kc"] = ["pa_chunked"]
            case["ksplits"] = gen.random_splits(rng, n, 5) or [1]
    if "strategy" not in case and r > 0.9:
        case["strategy"] = {"rows_per_thread": max(1, n // int(rng.integers(2, 5)))}
    return case


def features(case):
    lk = common.lkeys_ns(case["keys"])
    n = case["n"]
    sel = gen.mask_selection(case["mask"], n)
    vals = common.logical_vals(case["val"])
    f = [f"op={case['op']}|kk={'+'.join(k['kind'] for k in case['keys'])}|dt={case['val']['dtype']}|"
         f"mask={'none' if case['mask'] is None else case['mask']['kind']}"]
    all_g = model.group_rows(lk)
    sel_g = model.group_rows(lk, sel)
    if any(all(vals[i] is None for i in rows) for rows in sel_g.values()):
        f.append("allnull_group")
    if len(sel_g) < len(all_g):
        f.append("emptied_group")
    first = list(all_g)
    if first != gen.sort_labels(common.keyspecs_ns(case["keys"]), first):
        f.append("unsorted_first_appearance")
    if len(case["keys"]) > 1:
        f.append("multi_key")
    if any(k is None for k in lk):
        f.append("null_keys")
    if n > 100:
        f.append("n>100")
    return f


def nontrivial(case):
    lk = common.lkeys_ns(case["keys"])
    sel = gen.mask_selection(case["mask"], case["n"])
    return sum(k is not None for k in lk) >= 2 and any(lk[i] is not None for i in sel)


def check(case, ctx):
    st = case.get("strategy")
    if not st:
        return _check(case, ctx)
    lib.set_strategy(**st)
    try:
        return _check(case, ctx)
    finally:
        lib.reset_strategy()


def _check(case, ctx):
    GroupBy = common.gb_class()
    fails = []
    n = case["n"]
    keys = common.build_keys(case)
    op = case["op"]
    lk = common.lkeys_ns(case["keys"])
    sel = gen.mask_selection(case["mask"], n)
    mask = gen.mask_obj(case["mask"])
    gb = lib.call(GroupBy, keys, sort=case.get("sort", True))
    if lib.raised(gb):
        return [{"monitor": "c01.raised", "sig": "construct", "detail": f"GroupBy(keys) raised {gb!r}"}]
    if getattr(gb, "key_is_chunked", False):
        ctx.count("observed_chunked_keys")
    if int(getattr(gb, "_max_threads_for_numba", 1)) > 1:
        ctx.count("observed_multi_thread")
    if op == "size":
        res = lib.call(gb.size, mask=mask)
        valspec = None
    else:
        val = common.build_val(case)
        res = lib.call(getattr(gb, op), val, mask=mask)
        valspec = case["val"]
    if lib.raised(res):
        return [{"monitor": "c01.raised", "sig": f"{op}|{type(res.exc).__name__}",
                 "detail": f"{op}(dtype={case['val']['dtype']}, mask={case['mask'] and case['mask']['kind']}) raised {res!r}"}]
    try:
        got = cmp.series_map(res)
    except Exception as e:
        return [{"monitor": "c01.shape", "sig": op, "detail": f"result is not a label-indexed Series: {e!r} {type(res)}"}]
    fails += common.compare_reduction(op, valspec, lk, sel, got, what="c01")
    return fails


def run(ctx):
    if ctx.shard == 100:
        j = 0
        for size in BIG_SIZES[ctx.tier]:
            for op in ["size", "count", "sum", "mean", "min", "max", "first", "last"]:
                for dtype in (["float64", "int64"] if ctx.tier == "quick" else ["float64", "int64", "int16", "float32"]):
                    if (op == "size" and dtype != "float64") or (dtype == "float32" and size > 200000):
                        continue
                    j += 1
                    case = {"big": True, "size": size, "n": size + 600, "op": op, "masked": bool(j % 2), "seed": int(ctx.seed) * 1000 + j, "noshrink": True,
                            "keys": [], "val": {"dtype": dtype, "vals": []}, "mask": None, "params": {}}
                    ctx.run_case(case, check_big, lambda c: [f"big|{c['op']}|{c['size']}"], lambda c: True)
        return
    err = model.selfcheck()
    if err:
        raise RuntimeError(err)
    dtypes = SHARD_DTYPES[ctx.shard % len(SHARD_DTYPES)]
    rng = gen.rng_for(ctx.seed, "C01", ctx.shard, 1 if ctx.mode != "prod" else 0)
    ncases = N_CASES[ctx.tier]
    if ctx.mode != "prod":
        ncases = ncases // 3
    for _ in range(ncases):
        ctx.run_case(gen_case(rng, dtypes), check, features, nontrivial, common.shrink)
