"""C08 - cumulative operations are per-group prefix reductions (reference-model monitor, exact for ints/temporal)."""
import numpy as np

from .. import cmp, gen, lib, model, ops
from . import common

LEVEL = "exploration"
RULE = ("seeded random datasets (<=4-5 interleaved groups, null keys, null values incl. leading nulls and all-null groups, "
        "boolean masks, both skip_na settings for cumsum) x cumsum/cummin/cummax/cumcount x float/int/uint/bool/datetime/"
        "timedelta incl. magnitudes above 2^53; plus one group of 65535/65536/65537/70000 (thorough: up to 200000) rows "
        "interleaved with two small ones, against NumPy prefix reductions. Every non-null-key selected row is compared with the prefix reduction of "
        "its group computed in exact Python arithmetic; the last cumulative value per group is cross-checked against the "
        "library's own sum/min/max/size. distinct = case digests; non-trivial = some group has >= 2 selected rows")
ASSUMPTIONS = [
    "at rows whose group prefix holds no non-null value yet, cumsum may be null or 0 and cummin/cummax must be null",
    "skip_na=False is driven for cumsum only (the property states it for the running sum)",
    "float cumsum within 4(n+2)*eps*(prefix sum|x|); ints, bools and temporals exact; result dtype kind must stay integer/temporal",
]
OPS = ["cumsum", "cumsum", "cummin", "cummax", "cumcount"]
N_CASES = {"quick": 1100, "thorough": 12000}


def plan(tier):
    return common.std_plan(tier) + [dict(shard=100, nshards=1, mode="prod")]


BIG_SIZES = {"quick": [65535, 65536, 65537, 70000], "thorough": [32767, 32768, 65535, 65536, 65537, 70000, 131073, 200000]}


def check_big(case, ctx):
    """one group of `size` rows interleaved with two small ones: per-group counters and running states must be as wide as a group
    can be long.  Reference = NumPy prefix reductions on each group's selected rows (small integers: exact in every dtype)."""
    from groupby_lib import GroupBy

    size, op, dtype = case["size"], case["op"], case["val"]["dtype"]
    rng = np.random.Generator(np.random.PCG64(case["seed"]))
    n = size + 600
    keys = np.zeros(n, dtype="int64")
    small = rng.choice(n, size=600, replace=False)
    keys[small[:300]] = 1
    keys[small[300:]] = 2
    vals = rng.integers(-9, 10, size=n).astype(dtype)
    mask = (rng.random(n) < 0.999) if case["masked"] else None
    if mask is not None:
        mask[small] = True
    gb = lib.call(GroupBy, keys)
    res = lib.call(gb.cumcount, mask=mask) if op == "cumcount" else lib.call(getattr(gb, op), vals, mask=mask)
    sig = f"{op}|big|{np.dtype(dtype).kind}"
    if lib.raised(res):
        return [{"monitor": "c08.raised", "sig": sig, "detail": f"{op} on a group of {size} rows raised {res!r}"}]
    got = np.asarray(res)
    if len(got) != n:
        return [{"monitor": "c08.shape", "sig": sig, "detail": f"{op}: {len(got)} results for {n} rows"}]
    sel_all = np.ones(n, bool) if mask is None else mask
    for g in (0, 1, 2):
        idx = np.flatnonzero((keys == g) & sel_all)
        ctx.counters["big_group_rows_max"] = max(ctx.counters["big_group_rows_max"], len(idx))
        v = vals[idx].astype("float64" if np.dtype(dtype).kind == "f" else "int64")
        exp = {"cumsum": np.cumsum, "cummin": np.minimum.accumulate, "cummax": np.maximum.accumulate, "cumcount": lambda x: np.arange(len(x))}[op](v)
        a = got[idx].astype(exp.dtype)
        bad = np.flatnonzero(a != exp)
        if len(bad):
            j = int(bad[0])
            return [{"monitor": "c08.value", "sig": sig, "detail": f"{op}(dtype={dtype}, masked={case['masked']}) on a group of {len(idx)} selected rows: the group's row number {j} "
                                                                    f"(input row {int(idx[j])}) is {got[idx[j]]!r}, prefix reduction {exp[j]!r}"}]
    ctx.count("big_group_calls")
    return []


def required_counters(tier):
    return ["masked", "skip_na_false", "above_2^53", "null_keys", "last_vs_reduction_checked", "leading_null_value", "big_group_calls"]


def features(case):
    f = common.std_features(case)
    if case["mask"] is not None:
        f.append("masked")
    if case["params"].get("skip_na") is False:
        f.append("skip_na_false")
    vals = [v for v in case["val"]["vals"] if v is not None]
    if np.dtype(case["val"]["dtype"]).kind in "iumM" and any(abs(v) > 2**53 for v in vals):
        f.append("above_2^53")
    lk = common.lkeys_ns(case["keys"])
    if any(k is None for k in lk):
        f.append("null_keys")
    seen = set()
    for k, v in zip(lk, case["val"]["vals"]):
        if k is not None and k not in seen:
            seen.add(k)
            if v is None:
                f.append("leading_null_value")
                break
    return f


def nontrivial(case):
    lk = common.lkeys_ns(case["keys"])
    sel = gen.mask_selection(case["mask"], case["n"])
    return any(len(r) >= 2 for r in model.group_rows(lk, sel).values())


def check(case, ctx):
    fails = []
    n, op = case["n"], case["op"]
    dtype = case["val"]["dtype"]
    dt = np.dtype(dtype)
    sig = f"{op}|{dt.kind}|skipna={case['params'].get('skip_na', True)}"
    r = ops.execute(case)
    if r.raised is not None:
        return [{"monitor": "c08.raised", "sig": f"{sig}|{type(r.raised.exc).__name__}", "detail": f"{op} raised {r.raised!r}"}]
    if isinstance(r.vals, dict) or len(r.vals) != n:
        return [{"monitor": "c08.shape", "sig": sig, "detail": f"{op}: result shape wrong ({type(r.raw).__name__}, len {len(r.vals)})"}]
    lk = common.lkeys_ns(case["keys"])
    vals = common.logical_vals(case["val"])
    mb = gen.mask_as_bool(case["mask"], n) if case["mask"] is not None else None
    skip_na = case["params"].get("skip_na", True)
    ref = model.cumulative(lk, None if op == "cumcount" else vals, mb, op, skip_na=skip_na)
    pabs = model.rolling_abs(lk, vals, mb, n) if dt.kind == "f" else None
    eps = cmp.EPS.get(dtype, cmp.EPS["float64"])
    # dtype kind: no detour through floating point
    rk = ops.dtype_kind(r.dtype)
    if op != "cumcount":
        if dt.kind in "iub" and op == "cumsum" and rk not in "iu":
            fails.append({"monitor": "c08.dtype", "sig": sig, "detail": f"cumsum of {dtype} returned dtype {r.dtype}"})
        if dt.kind in "mM" and rk != dt.kind:
            fails.append({"monitor": "c08.dtype", "sig": sig, "detail": f"{op} of {dtype} returned dtype {r.dtype}"})
        if dt.kind in "iu" and op in ("cummin", "cummax") and rk not in "iu":
            fails.append({"monitor": "c08.dtype", "sig": sig, "detail": f"{op} of {dtype} returned dtype {r.dtype}"})
    seen_nonnull = set()
    for i in range(n):
        e = ref[i]
        if e is model.SKIP or (isinstance(e, str) and e == model.SKIP):
            continue
        k = lk[i]
        if vals[i] is not None:
            seen_nonnull.add(k)
        g = r.vals[i]
        if op == "cumcount":
            ok = g == e
        elif k not in seen_nonnull and not (not skip_na and op == "cumsum"):
            ok = cmp.is_null(g) or (op == "cumsum" and g == 0) or ops.is_neutral(g, op, r.dtype)
        elif e is None:
            ok = cmp.is_null(g) or (dt.kind in "iub" and False)
        elif dt.kind == "f":
            tol = 4.0 * (n + 2) * eps * pabs[i] + 1e-300 if op == "cumsum" else 0.0
            ok = cmp.close(g, e, tol)
        elif dt.kind == "b":
            ok = (g == e) if op == "cumsum" else (bool(g) == bool(e) and not cmp.is_null(g))
        else:
            ok = (not cmp.is_null(g)) and g == e and not isinstance(g, float)
            if not ok and isinstance(g, float) and not cmp.is_null(g) and float(e) == g and abs(e) < 2**53 and op != "cumsum":
                ok = True
        if not ok:
            fails.append({"monitor": "c08.value", "sig": sig, "detail": f"{op}(dtype={dtype}, skip_na={skip_na}) row {i} key {k!r}: library={g!r} model={e!r}"})
            break
    # last cumulative value == the library's own reduction
    if not fails and skip_na and op != "cumcount":
        red = {"cumsum": "sum", "cummin": "min", "cummax": "max"}[op]
        if ops.accepts(red, dtype):
            rr = ops.execute(case, op=red, params={})
            if rr.raised is None and not isinstance(rr.vals, dict):
                ctx.count("last_vs_reduction_checked")
                rmap = rr.as_map()
                sel = [i for i in range(n) if lk[i] is not None and (mb is None or mb[i])]
                last = {}
                for i in sel:
                    last[lk[i]] = i
                tol = ops.float_tol(red, case["val"], n)
                for k, i in last.items():
                    a, b = r.vals[i], rmap.get(k)
                    if cmp.is_null(b) or (cmp.is_null(a) and (b == 0 or cmp.is_null(b))):
                        continue
                    if not ops.same_value(a, b, tol):
                        fails.append({"monitor": "c08.last", "sig": sig, "detail": f"last {op} of group {k!r} is {a!r} but {red} reports {b!r}"})
                        break
    return fails


def gen_case(rng, dtypes):
    case = common.gen_opcase(rng, OPS, dtypes, mask_kinds=["none", "none", "bool", "bool_series"], index_p=0.4)
    if case["op"] != "cumsum":
        case["params"] = {"skip_na": True} if case["op"] != "cumcount" else {}
    common.add_route(rng, case, 0.2)
    return case


def run(ctx):
    if ctx.shard == 100:
        j = 0
        for size in BIG_SIZES[ctx.tier]:
            for op, dtype in [("cumsum", "int64"), ("cumsum", "float64"), ("cummin", "int32"), ("cummax", "float32"), ("cumcount", "int64")]:
                for masked in ([False, True] if (ctx.tier == "thorough" or size == 70000) else [False]):
                    j += 1
                    case = {"big": True, "size": size, "n": size + 600, "op": op, "masked": masked, "seed": int(ctx.seed) * 1000 + j, "noshrink": True,
                            "keys": [], "val": {"dtype": dtype, "vals": []}, "mask": None, "params": {}}
                    ctx.run_case(case, check_big, lambda c: [f"big|{c['op']}|{c['size']}"], lambda c: True)
        return
    err = model.selfcheck() if ctx.shard == 0 else None
    if err:
        raise RuntimeError(err)
    dtypes = common.ALL_DTYPE_SHARDS[ctx.shard % len(common.ALL_DTYPE_SHARDS)]
    rng = gen.rng_for(ctx.seed, "C08", ctx.shard, 1 if ctx.mode != "prod" else 0)
    ncases = N_CASES[ctx.tier] if ctx.mode == "prod" else max(50, N_CASES[ctx.tier] // 3)
    for _ in range(ncases):
        ctx.run_case(gen_case(rng, dtypes), check, features, nontrivial, common.shrink)
