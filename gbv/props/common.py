"""Shared pieces of the property monitors that drive GroupBy."""
import math
from fractions import Fraction

import numpy as np

from .. import cmp, gen, lib, model

REDUCTIONS = ["size", "count", "sum", "mean", "min", "max", "first", "last"]


def gb_class():
    from groupby_lib import GroupBy

    return GroupBy


def lkeys_ns(keyspecs):
    """logical keys with datetime labels expressed in ns (as cmp.py normalises library labels)."""
    cols = []
    for k in keyspecs:
        if k["kind"] == "dt":
            m = gen.UNIT_NS[k["unit"]]
            cols.append([None if v is None else v * m for v in k["vals"]])
        else:
            cols.append(k["vals"])
    return [None if any(v is None for v in row) else tuple(row) for row in zip(*cols)]


def keyspecs_ns(keyspecs):
    out = []
    for k in keyspecs:
        if k["kind"] == "dt":
            m = gen.UNIT_NS[k["unit"]]
            k = dict(k, vals=[None if v is None else v * m for v in k["vals"]])
        out.append(k)
    return out


def logical_vals(valspec):
    """values as the model sees them: floats / ints / bools; temporal as int ns."""
    dt = np.dtype(valspec["dtype"])
    if dt.kind in "mM":
        m = gen.UNIT_NS[gen.dtype_unit(valspec["dtype"])]
        return [None if v is None else v * m for v in valspec["vals"]]
    return list(valspec["vals"])


def build_keys(case, index=None):
    kcs = case.get("kc") or ["np"] * len(case["keys"])
    splits = case.get("ksplits")
    arrs = [gen.key_array(k, c, index=index, splits=splits) for k, c in zip(case["keys"], kcs)]
    if case.get("keys_as") == "dict":
        return {k.get("name") or f"k{i}": a for i, (k, a) in enumerate(zip(case["keys"], arrs))}
    return arrs[0] if len(arrs) == 1 and not case.get("keys_as_list") else arrs


def build_val(case, valspec=None, index=None):
    valspec = valspec or case["val"]
    return gen.val_array(valspec, case.get("vc", "np"), index=index, splits=case.get("vsplits"))


def float_result_tol(op, dtype, stats, ref):
    """tolerance for a floating result of op on one group. stats = (n, sum|x|, max|x|)."""
    n, s, mx = stats
    if op == "sum":
        return cmp.sum_tol(n, s, dtype)
    if op == "mean":
        eps = cmp.EPS.get(dtype, cmp.EPS["float64"])
        return cmp.sum_tol(n, s, dtype) / max(n, 1) + 4 * eps * abs(float(ref)) + 1e-300
    return 0.0


def compare_reduction(op, valspec, lkeys, sel, got_map, what="value"):
    """compare {label: value} from the library with the model.  Returns list of failure dicts."""
    fails = []
    dtype = valspec["dtype"] if valspec is not None else "int64"
    dt = np.dtype(dtype)
    vals = logical_vals(valspec) if valspec is not None else [0] * len(lkeys)
    ref = model.reductions(lkeys, vals, sel, op)
    if set(got_map) != set(ref):
        extra = sorted(set(got_map) - set(ref), key=repr)[:3]
        missing = sorted(set(ref) - set(got_map), key=repr)[:3]
        fails.append({"monitor": f"{what}.labels", "sig": op, "detail": f"{op}: labels differ; extra={extra} missing={missing}"})
        return fails
    stats = model.abs_sums(lkeys, vals, sel) if dt.kind == "f" or op == "mean" else None
    for lab, r in ref.items():
        g = got_map[lab]
        if op in ("size", "count"):
            ok = g == r
        elif dt.kind == "f":
            tol = float_result_tol(op, dtype, stats[lab], r if r is not None else 0.0)
            ok = cmp.close(g, r, tol)
        elif dt.kind in "iub":
            if op == "mean":
                tol = 0.0 if r is None else 8 * cmp.EPS["float64"] * abs(float(r)) + 1e-300
                ok = cmp.close(g, r, tol)
            elif op == "sum":
                ok = (g == r) and not isinstance(g, float) if r is not None else g is None
                if not ok and isinstance(g, float) and float(g) == float(r) and abs(r) < 2**53:
                    ok = True  # float-typed but exact: dtype is C12's business, not C01's
            else:
                ok = cmp.close(g, r if dt.kind != "b" else (None if r is None else bool(r)), 0)
                if dt.kind == "b" and r is None:
                    ok = g is None or g is False  # no null for bool: neutral False accepted
        else:  # temporal, ints in ns
            unit_ns = gen.UNIT_NS[gen.dtype_unit(dtype)]
            if op == "mean":
                # +-1 unit (floor vs round) plus float64 rounding of the quotient (pandas itself divides in float64)
                ok = (g is None) if r is None else (g is not None and abs(Fraction(g) - r) <= unit_ns + abs(r) * Fraction(1, 2**50))
            elif op == "sum":
                ok = g == r
            else:
                ok = g == r
        if not ok:
            fails.append({"monitor": f"{what}.value", "sig": f"{op}|{dt.kind}",
                          "detail": f"{op} dtype={dtype} label={lab!r}: library={g!r} model={_show(r)}"})
            if len(fails) >= 3:
                break
    return fails


def _show(r):
    if isinstance(r, Fraction):
        return f"{float(r)!r} (exact {r})" if r.denominator != 1 else str(r.numerator)
    return repr(r)


def int_sum_in_range(lkeys, vals, sel, dtype):
    """does every group's exact sum fit the 64-bit accumulator the dtype implies?"""
    ref = model.reductions(lkeys, vals, sel, "sum")
    lo, hi = (0, 2**64 - 1) if np.dtype(dtype).kind == "u" else (-(2**63), 2**63 - 1)
    return all(lo <= v <= hi for v in ref.values())


# ------------------------------------------------------------------ shrinking


def drop_rows(case, keep):
    """a copy of the case restricted to the row positions in `keep` (only for row-aligned fields)."""
    import copy

    c = copy.deepcopy(case)
    n = case["n"]
    def sub(lst):
        return [lst[i] for i in keep]
    for k in c.get("keys", []):
        k["vals"] = sub(k["vals"])
    for name in ("val", "val2", "times"):
        if c.get(name):
            c[name]["vals"] = sub(c[name]["vals"])
    for v in c.get("vals", []) or []:
        v["vals"] = sub(v["vals"])
    m = c.get("mask")
    if m is not None:
        if m["kind"] in ("bool", "bool_series"):
            m["vals"] = sub(m["vals"])
        else:
            return None
    if c.get("index") is not None:
        c["index"]["vals"] = sub(c["index"]["vals"])
    for name in ("ksplits", "vsplits"):
        if c.get(name):
            c[name] = sorted({min(len(keep) - 1, s) for s in c[name] if 0 < min(len(keep) - 1, s)}) if len(keep) > 1 else []
    c["n"] = len(keep)
    return c


def shrink(case, fails, check, ctx, budget=150):
    """greedy row deletion keeping the same (monitor, sig) failing."""
    if "n" not in case or case["n"] > 400 or case.get("noshrink"):
        return case, fails
    want = {(f["monitor"], f.get("sig")) for f in fails}
    cur, cur_f = case, fails
    n = cur["n"]
    chunk = max(1, n // 2)
    calls = 0
    while chunk >= 1 and calls < budget:
        i = 0
        progressed = False
        while i < cur["n"] and calls < budget:
            keep = [j for j in range(cur["n"]) if not (i <= j < i + chunk)]
            if not keep:
                i += chunk
                continue
            cand = drop_rows(cur, keep)
            if cand is None:
                return cur, cur_f
            calls += 1
            try:
                f2 = list(check(cand, ctx) or []) + lib.drain_side_failures()
            except Exception:
                f2 = []
            if {(f["monitor"], f.get("sig")) for f in f2} & want:
                cur, cur_f = cand, [f for f in f2 if (f["monitor"], f.get("sig")) in want]
                progressed = True
            else:
                i += chunk
        if not progressed or chunk == 1:
            if chunk == 1:
                break
        chunk = max(1, chunk // 2)
    return cur, cur_f


# ------------------------------------------------------------------ generic operation cases (ops.py)

ALL_DTYPE_SHARDS = [
    ["float64"], ["float32", "bool"], ["int64", "uint8"], ["int32", "uint64"], ["int16", "uint32"], ["int8", "uint16"],
    ["datetime64[ns]", "timedelta64[us]"], ["datetime64[us]", "timedelta64[ns]"], ["datetime64[s]", "timedelta64[s]", "datetime64[ms]"],
    ["float64", "int64"], ["float64", "datetime64[ns]"], ["float64", "int32"],
]


def gen_opcase(rng, op_pool, dtypes, nmax=40, mask_kinds=None, big_p=0.0, key_kinds=None, index_p=0.5,
               nkeys_pool=(1, 1, 1, 2, 2, 3), null_p=None, timed_p=0.3):
    """one logical case for an operation drawn from op_pool and a value dtype the operation accepts."""
    from .. import ops

    n = int(rng.integers(1, nmax + 1)) if rng.random() >= big_p else int(rng.integers(200, 1500))
    nkeys = gen.pick(rng, list(nkeys_pool))
    keys = [gen.gen_key(rng, n, kind=(gen.pick(rng, key_kinds) if key_kinds else None), null_p=null_p,
                        name=gen.pick(rng, [None, f"k{i}"])) for i in range(nkeys)]
    lk = lkeys_ns(keys)
    for _ in range(20):
        op = gen.pick(rng, op_pool)
        ok = [d for d in dtypes if ops.accepts(op, d)]
        if ok:
            break
    else:
        op, ok = "count", list(dtypes)
    dtype = gen.pick(rng, ok)
    val = gen.gen_vals(rng, n, dtype, name=gen.pick(rng, [None, "v"]))
    if val["null_mode"] == "allnull_group":
        gen.null_out_group(val, lk, rng)
    kind = ops.KIND[op]
    if mask_kinds is None:
        mask_kinds = ["none", "none", "bool", "bool", "bool_series", "slice", "pos"] if kind == "red" and op in ops.RED \
            else ["none", "bool", "bool", "bool_series"]
    if op in ops.SEL:
        mask_kinds = ["none"]
    mask = gen.gen_mask(rng, n, kind=gen.pick(rng, list(mask_kinds)), lkeys=lk)
    params = ops.gen_params(rng, op, n)
    case = {"n": n, "keys": keys, "val": val, "mask": mask, "op": op, "params": params, "sort": bool(rng.random() < 0.8),
            "vc": "np", "index": None}
    if rng.random() < index_p:
        case["vc"] = "pd"
        if kind in ("row", "sel") or rng.random() < 0.5:
            case["index"] = gen.gen_index(rng, n)
    if mask is not None and mask["kind"] == "bool_series" and case["index"] is not None and case["vc"] != "pd":
        case["index"] = None
    if np.dtype(dtype).kind in "iu" and op in ("sum", "mean", "cumsum", "rolling_sum", "rolling_mean", "var", "std"):
        if not int_sum_in_range(lk, logical_vals(val), None, dtype) or op in ("var", "std", "rolling_sum", "rolling_mean"):
            case["val"] = gen.gen_vals(rng, n, dtype, magnitude="small", name=val["name"])
    if np.dtype(dtype).kind == "m" and op in ("sum", "mean", "cumsum", "rolling_sum", "rolling_mean"):
        pass  # timedelta magnitudes are small by construction
    if op == "ema" and "halflife" in params and rng.random() < timed_p:
        case["times"] = gen_times(rng, n)
        case["params"] = {"halflife": gen.pick(rng, ["1s", "2500ms", "1h", "90s"])}
    return case


def gen_times(rng, n, unit="ns", start=None, fine=False):
    """non-decreasing timestamps (ns since epoch by default, after 1970), irregular with repeats."""
    start = 1_600_000_000 if start is None else start
    per = 10**9 // gen.UNIT_NS[unit]
    if fine:
        # tick data: irregular steps of a few hundred units on top of a present-day epoch value (not multiples of 256)
        steps = rng.integers(0, 1900, size=n) * rng.choice([0, 1, 1, 1], size=n)
        base = int(start) * per + int(rng.integers(1, 255))
        return {"unit": unit, "vals": [int(base + x) for x in np.cumsum(steps)], "container": "np", "fine": True}
    gaps = rng.choice([0, 1, 1, 2, 5, 30, 3600], size=n) * rng.choice([1, 1, 1, 0.5], size=n)
    secs = start + np.cumsum(gaps)
    return {"unit": unit, "vals": [int(round(s * per)) for s in secs], "container": "np"}


def case_is_known_dt_mean(case):
    return False


def with_rows(case, keep):
    """case restricted to row positions `keep` (mask dropped; index and times restricted)."""
    import copy

    c = copy.deepcopy(case)
    for k in c["keys"]:
        k["vals"] = [k["vals"][i] for i in keep]
    for name in ("val", "val2", "times"):
        if c.get(name):
            c[name]["vals"] = [c[name]["vals"][i] for i in keep]
    if c.get("index") is not None:
        c["index"]["vals"] = [c["index"]["vals"][i] for i in keep]
    c["mask"] = None
    c["n"] = len(keep)
    return c


def std_features(case, extra=()):
    m = case.get("mask")
    f = [f"op={case['op']}|dt={case['val']['dtype']}|mask={'none' if m is None else m['kind']}",
         f"keys={'+'.join(k['kind'] for k in case['keys'])}"]
    f += list(extra)
    return f


def perturb_vals(valspec, rows, seed):
    """copy of valspec with the values at `rows` replaced (other values / nulls / extremes)."""
    import copy

    rng = np.random.Generator(np.random.PCG64(int(seed)))
    v = copy.deepcopy(valspec)
    dt = np.dtype(v["dtype"])
    for i in rows:
        r = rng.random()
        if dt.kind == "f":
            v["vals"][i] = None if r < 0.3 else (float(np.float32(1e6)) if r < 0.5 else float(rng.integers(-50, 50)))
        elif dt.kind in "iu":
            info = np.iinfo(dt)
            v["vals"][i] = int(rng.integers(max(info.min, -100), min(info.max, 100) + 1))
        elif dt.kind == "b":
            v["vals"][i] = not v["vals"][i] if r < 0.7 else v["vals"][i]
        else:
            old = v["vals"][i]
            v["vals"][i] = None if r < 0.3 else (0 if old is None else old) + int(rng.integers(-1000, 1000))
    return v


def run_generic(ctx, prop, op_pool, check, features, nontrivial, n_cases, shards=ALL_DTYPE_SHARDS, **genkw):
    err = model.selfcheck() if ctx.shard == 0 else None
    if err:
        raise RuntimeError(err)
    dtypes = shards[ctx.shard % len(shards)]
    rng = gen.rng_for(ctx.seed, prop, ctx.shard, 1 if ctx.mode != "prod" else 0)
    ncases = n_cases[ctx.tier]
    if ctx.mode != "prod":
        ncases = max(50, ncases // 3)
    for _ in range(ncases):
        case = gen_opcase(rng, op_pool, dtypes, **genkw)
        case["pseed"] = int(rng.integers(1 << 30))
        ctx.run_case(case, check, features, nontrivial, shrink)


def std_plan(tier, nshards=len(ALL_DTYPE_SHARDS), bounds_quick=1):
    p = [dict(shard=i, nshards=nshards, mode="prod") for i in range(nshards)]
    nb = bounds_quick if tier == "quick" else nshards
    p += [dict(shard=i, nshards=nshards, mode="bounds") for i in range(nb)]
    return p


def add_route(rng, case, p=0.2):
    """with probability p send a single-key case over the chunk-wise, pre-chunked Arrow or multi-thread route (scaled
    thresholds; applied by the worker around the check).  The property must hold on every route, and the relational /
    model-based checks would otherwise only ever see the plain one."""
    keys = case.get("keys") or []
    n = case.get("n", 0)
    if rng.random() >= p or len(keys) != 1 or keys[0]["kind"] in ("cat", "range") or n < 4 or case.get("strategy"):
        return case
    r = rng.random()
    if r < 0.55:
        case["strategy"] = {"chunk_threshold": int(gen.pick(rng, [2, 4])), "key_chunks": int(rng.integers(2, 6))}
    elif r < 0.8 and keys[0]["kind"] != "bool" and not case.get("kc"):
        case["kc"] = ["pa_chunked"]
        case["ksplits"] = gen.random_splits(rng, n, 5) or [1]
    else:
        case["strategy"] = {"rows_per_thread": max(1, n // int(rng.integers(2, 5)))}
    return case
