"""Shared pieces of the property monitors that drive GroupBy."""
import math
from fractions import Fraction

import numpy as np

from .. import cmp, gen, lib, model

REDUCTIONS = ["size", "count", "sum", "mean", "min", "max", "first", "last"]


def gb_class():
    from groupby_lib import GroupBy

    return GroupBy


def lkeys_ns(keyspecs):
    """logical keys with datetime labels expressed in ns (as cmp.py normalises library labels)."""
    cols = []
    for k in keyspecs:
        if k["kind"] == "dt":
            m = gen.UNIT_NS[k["unit"]]
            cols.append([None if v is None else v * m for v in k["vals"]])
        else:
            cols.append(k["vals"])
    return [None if any(v is None for v in row) else tuple(row) for row in zip(*cols)]


def keyspecs_ns(keyspecs):
    out = []
    for k in keyspecs:
        if k["kind"] == "dt":
            m = gen.UNIT_NS[k["unit"]]
            k = dict(k, vals=[None if v is None else v * m for v in k["vals"]])
        out.append(k)
    return out


def logical_vals(valspec):
    """values as the model sees them: floats / ints / bools; temporal as int ns."""
    dt = np.dtype(valspec["dtype"])
    if dt.kind in "mM":
        m = gen.UNIT_NS[gen.dtype_unit(valspec["dtype"])]
        return [None if v is None else v * m for v in valspec["vals"]]
    return list(valspec["vals"])


def build_keys(case, index=None):
    kcs = case.get("kc") or ["np"] * len(case["keys"])
    splits = case.get("ksplits")
    arrs = [gen.key_array(k, c, index=index, splits=splits) for k, c in zip(case["keys"], kcs)]
    if case.get("keys_as") == "dict":
        return {k.get("name") or f"k{i}": a for i, (k, a) in enumerate(zip(case["keys"], arrs))}
    return arrs[0] if len(arrs) == 1 and not case.get("keys_as_list") else arrs


def build_val(case, valspec=None, index=None):
    valspec = valspec or case["val"]
    return gen.val_array(valspec, case.get("vc", "np"), index=index, splits=case.get("vsplits"))


def float_result_tol(op, dtype, stats, ref):
    """tolerance for a floating result of op on one group. stats = (n, sum|x|, max|x|)."""
    n, s, mx = stats
    if op == "sum":
        return cmp.sum_tol(n, s, dtype)
    if op == "mean":
        eps = cmp.EPS.get(dtype, cmp.EPS["float64"])
        return cmp.sum_tol(n, s, dtype) / max(n, 1) + 4 * eps * abs(float(ref)) + 1e-300
    return 0.0


def compare_reduction(op, valspec, lkeys, sel, got_map, what="value"):
    """compare {label: value} from the library with the model.  Returns list of failure dicts."""
    fails = []
    dtype = valspec["dtype"] if valspec is not None else "int64"
    dt = np.dtype(dtype)
    vals = logical_vals(valspec) if valspec is not None else [0] * len(lkeys)
    ref = model.reductions(lkeys, vals, sel, op)
    if set(got_map) != set(ref):
        extra = sorted(set(got_map) - set(ref), key=repr)[:3]
        missing = sorted(set(ref) - set(got_map), key=repr)[:3]
        fails.append({"monitor": f"{what}.labels", "sig": op, "detail": f"{op}: labels differ; extra={extra} missing={missing}"})
        return fails
    stats = model.abs_sums(lkeys, vals, sel) if dt.kind == "f" or op == "mean" else None
    for lab, r in ref.items():
        g = got_map[lab]
        if op in ("size", "count"):
            ok = g == r
        elif dt.kind == "f":
            tol = float_result_tol(op, dtype, stats[lab], r if r is not None else 0.0)
            ok = cmp.close(g, r, tol)
        elif dt.kind in "iub":
            if op == "mean":
                tol = 0.0 if r is None else 8 * cmp.EPS["float64"] * abs(float(r)) + 1e-300
                ok = cmp.close(g, r, tol)
            elif op == "sum":
                ok = (g == r) and not isinstance(g, float) if r is not None else g is None
                if not ok and isinstance(g, float) and float(g) == float(r) and abs(r) < 2**53:
                    ok = True  # float-typed but exact: dtype is C12's business, not C01's
            else:
                ok = cmp.close(g, r if dt.kind != "b" else (None if r is None else bool(r)), 0)
                if dt.kind == "b" and r is None:
                    ok = g is None or g is False  # no null for bool: neutral False accepted
        else:  # temporal, ints in ns
            unit_ns = gen.UNIT_NS[gen.dtype_unit(dtype)]
            if op == "mean":
                # +-1 unit (floor vs round) plus float64 rounding of the quotient (pandas itself divides in float64)
                ok = (g is None) if r is None else (g is not None and abs(Fraction(g) - r) <= unit_ns + abs(r) * Fraction(1, 2**50))
            elif op == "sum":
                ok = g == r
            else:
                ok = g == r
        if not ok:
            fails.append({"monitor": f"{what}.value", "sig": f"{op}|{dt.kind}",
                          "detail": f"{op} dtype={dtype} label={lab!r}: library={g!r} model={_show(r)}"})
            if len(fails) >= 3:
                break
    return fails


def _show(r):
    if isinstance(r, Fraction):
        return f"{float(r)!r} (exact {r})" if r.denominator != 1 else str(r.numerator)
    return repr(r)


def int_sum_in_range(lkeys, vals, sel, dtype):
    """does every group's exact sum fit the 64-bit accumulator the dtype implies?"""
    ref = model.reductions(lkeys, vals, sel, "sum")
    lo, hi = (0, 2**64 - 1) if np.dtype(dtype).kind == "u" else (-(2**63), 2**63 - 1)
    return all(lo <= v <= hi for v in ref.values())


# ------------------------------------------------------------------ shrinking


def drop_rows(case, keep):
    """a copy of the case restricted to the row positions in `keep` (only for row-aligned fields)."""
    import copy

    c = copy.deepcopy(case)
    n = case["n"]
    def sub(lst):
        return [lst[i] for i in keep]
    for k in c.get("keys", []):
        k["vals"] = sub(k["vals"])
    for name in ("val", "val2", "times"):
        if c.get(name):
            c[name]["vals"] = sub(c[name]["vals"])
    for v in c.get("vals", []) or []:
        v["vals"] = sub(v["vals"])
    m = c.get("mask")
    if m is not None:
        if m["kind"] in ("bool", "bool_series"):
            m["vals"] = sub(m["vals"])
        else:
            return None
    if c.get("index") is not None:
        c["index"]["vals"] = sub(c["index"]["vals"])
    for name in ("ksplits", "vsplits"):
        if c.get(name):
            c[name] = sorted({min(len(keep) - 1, s) for s in c[name] if 0 < min(len(keep) - 1, s)}) if len(keep) > 1 else []
    c["n"] = len(keep)
    return c


def shrink(case, fails, check, ctx, budget=150):
    """greedy row deletion keeping the same (monitor, sig) failing."""
    if "n" not in case or case["n"] > 400 or case.get("noshrink"):
        return case, fails
    want = {(f["monitor"], f.get("sig")) for f in fails}
    cur, cur_f = case, fails
    n = cur["n"]
    chunk = max(1, n // 2)
    calls = 0
    while chunk >= 1 and calls < budget:
        i = 0
        progressed = False
        while i < cur["n"] and calls < budget:
            keep = [j for j in range(cur["n"]) if not (i <= j < i + chunk)]
            if not keep:
                i += chunk
                continue
            cand = drop_rows(cur, keep)
            if cand is None:
                return cur, cur_f
            calls += 1
            try:
                f2 = list(check(cand, ctx) or []) + lib.drain_side_failures()
            except Exception:
                f2 = []
            if {(f["monitor"], f.get("sig")) for f in f2} & want:
                cur, cur_f = cand, [f for f in f2 if (f["monitor"], f.get("sig")) in want]
                progressed = True
            else:
                i += chunk
        if not progressed or chunk == 1:
            if chunk == 1:
                break
        chunk = max(1, chunk // 2)
    return cur, cur_f
