"""C14 - margins and cross-tabulation totals equal the aggregate of what they summarise (raw-row reference model)."""
from itertools import combinations

import numpy as np
import pandas as pd

from .. import cmp, gen, lib, model, ops
from . import common

LEVEL = "exploration"
RULE = ("seeded random 1-3-key groupings with sparse label combinations, null keys, null values and masks x "
        "{sum,count,size,min,max,mean} x every subset of margin levels (True or a list), and cross-tabs with 1-2 row keys and "
        "1-2 column keys x margins in {False, True, 'row', 'column'}. Every row of the result is looked up BY LABEL and "
        "compared with the same aggregation over the raw selected rows it summarises (so mean-of-means or sum-of-mins "
        "shortcuts are caught); ordinary rows must equal the result without margins; the set of 'All' combinations must be "
        "exactly the requested one; absent crosstab cells must be null. distinct = case digests; non-trivial = >= 2 labels in "
        "some key and at least one label combination absent or a group with >= 2 rows")
ASSUMPTIONS = [
    "margins=[i,...] requests an 'All' entry in key positions i (every non-empty combination of the listed positions)",
    "when the mask selects no row with a non-null key the grand-total row is optional but must be neutral if present",
    "key labels never equal the string 'All'; categorical keys are not combined with margins (an 'All' label is not a category)",
    "float sums/means within the C01 bound, counts/min/max exact",
]
FUNCS = ["sum", "count", "size", "min", "max", "mean"]
N_CASES = {"quick": 420, "thorough": 10000}
DT = [["float64"], ["float64", "int64"], ["int32", "float32"], ["float64"], ["int64", "uint8"], ["float64", "float32"], ["float64"], ["int16", "float64"]]


def plan(tier):
    p = [dict(shard=i, nshards=len(DT), mode="prod") for i in range(len(DT))]
    p.append(dict(shard=0, nshards=len(DT), mode="bounds"))
    if tier == "thorough":
        p += [dict(shard=i, nshards=len(DT), mode="bounds") for i in range(1, 4)]
    return p


def required_counters(tier):
    return ["margin_rows_checked", "ordinary_rows_checked", "crosstab_cells_checked", "crosstab_absent_cells", "level_subset_partial", "three_keys",
            "sparse_grid", "masked", "crosstab_margin_cells"]


def features(case):
    f = [f"{case['part']}|{case['func']}|nk={len(case['keys'])}|margins={case['margins']}"]
    if case["mask"] is not None:
        f.append("masked")
    if len(case["keys"]) == 3:
        f.append("three_keys")
    lk = common.lkeys_ns(case["keys"])
    labs = {k for k in lk if k is not None}
    full = 1
    for j in range(len(case["keys"])):
        full *= len({k[j] for k in labs}) or 1
    if len(labs) < full:
        f.append("sparse_grid")
    if isinstance(case["margins"], list) and 0 < len(case["margins"]) < len(case["keys"]):
        f.append("level_subset_partial")
    return f


def nontrivial(case):
    lk = common.lkeys_ns(case["keys"])
    labs = {k for k in lk if k is not None}
    return len(labs) >= 2


def _tol(func, valspec, n):
    if func in ("sum", "mean") and valspec is not None:
        return ops.float_tol(func, valspec, n)
    return 0.0


def _val_for(case):
    return None if case["func"] == "size" else case["val"]


def check_margins(case, ctx):
    fails = []
    n, func, margins = case["n"], case["func"], case["margins"]
    lk = common.lkeys_ns(case["keys"])
    nk = len(case["keys"])
    sel = gen.mask_selection(case["mask"], n)
    vs = _val_for(case)
    vals = common.logical_vals(vs) if vs is not None else None
    keys_obj, val, mask, idx = ops.build_inputs(case)
    gb = ops.make_gb(keys_obj, sort=case.get("sort", True))
    if lib.raised(gb):
        return [{"monitor": "c14.raised", "sig": "construct", "detail": f"GroupBy raised {gb!r}"}]
    call = (lambda **kw: lib.call(gb.size, mask=mask, **kw)) if func == "size" else (lambda **kw: lib.call(getattr(gb, func), val, mask=mask, **kw))
    plain = call()
    withm = call(margins=margins)
    sig = f"{func}|nk={nk}"
    if lib.raised(plain):
        return [{"monitor": "c14.raised", "sig": sig + "|plain", "detail": f"{func} without margins raised {plain!r}"}]
    if lib.raised(withm):
        return [{"monitor": "c14.raised", "sig": f"{sig}|{type(withm.exc).__name__}", "detail": f"{func}(margins={margins}) raised {withm!r}"}]
    pm = ops.normalise(plain, "red")
    wm = ops.normalise(withm, "red")
    if isinstance(wm.vals, dict):
        return [{"monitor": "c14.shape", "sig": sig, "detail": "single values input gave a frame"}]
    try:
        got = wm.as_map()
        plain_map = pm.as_map()
    except ValueError as e:
        return [{"monitor": "c14.shape", "sig": sig, "detail": str(e)}]
    levels = list(range(nk)) if margins is True else list(margins)
    ref = model.margins_model(lk, vals, sel, func, levels, nk)
    tol = _tol(func, vs, n)
    any_selected = any(lk[i] is not None for i in sel)
    # ---- label set
    extra = set(got) - set(ref)
    missing = set(ref) - set(got)
    if not any_selected:
        extra = {l for l in extra if not all(x == "All" for x in l)}
    if extra or missing:
        fails.append({"monitor": "c14.labels", "sig": sig, "detail": f"{func}(margins={margins}): rows not requested {sorted(extra, key=repr)[:4]}, rows missing {sorted(missing, key=repr)[:4]}"})
        return fails
    for lab, e in ref.items():
        g = got[lab]
        is_margin = any(x == "All" for x in lab)
        if is_margin:
            ctx.count("margin_rows_checked")
        else:
            ctx.count("ordinary_rows_checked")
            if lab in plain_map and not ops.same_value(g, plain_map[lab], 0.0):
                fails.append({"monitor": "c14.ordinary", "sig": sig, "detail": f"{func}: ordinary row {lab!r} changed by margins={margins}: {plain_map[lab]!r} -> {g!r}"})
                break
        if e is None:
            ok = cmp.is_null(g)
        elif func in ("size", "count"):
            ok = g == e
        else:
            ok = not cmp.is_null(g) and abs(float(g) - float(e)) <= tol
        if not ok:
            fails.append({"monitor": "c14.margin" if is_margin else "c14.cell", "sig": f"{sig}|{np.dtype(vs['dtype']).kind if vs else 'n'}",
                          "detail": f"{func}(margins={margins}) row {lab!r}: library={g!r}, aggregation of the raw rows={float(e) if e is not None else None!r}"})
            break
    if not any_selected:
        for lab, g in got.items():
            if not (cmp.is_null(g) or g == 0):
                fails.append({"monitor": "c14.margin", "sig": sig + "|empty", "detail": f"nothing selected but row {lab!r} = {g!r}"})
    return fails


def check_crosstab(case, ctx):
    from groupby_lib.groupby.core import crosstab

    fails = []
    n, func, margins = case["n"], case["func"], case["margins"]
    nr = case["nrow"]
    keys = case["keys"]
    lk = common.lkeys_ns(keys)
    nk = len(keys)
    sel = gen.mask_selection(case["mask"], n)
    vs = _val_for(case)
    vals = common.logical_vals(vs) if vs is not None else None
    arrs = [gen.key_array(k, "np") for k in keys]
    rows_in = arrs[:nr] if nr > 1 else arrs[0]
    cols_in = arrs[nr:] if nk - nr > 1 else arrs[nr]
    val = gen.val_array(vs, "np") if vs is not None else None
    mask = gen.mask_obj(case["mask"])
    res = lib.call(crosstab, rows_in, cols_in, val, aggfunc="sum" if func == "size" else func, mask=mask, margins=margins)
    sig = f"crosstab|{func}|{nr}x{nk - nr}|{margins}"
    if lib.raised(res):
        return [{"monitor": "c14.raised", "sig": f"{sig}|{type(res.exc).__name__}", "detail": f"crosstab({func}, margins={margins}) raised {res!r}"}]
    if not isinstance(res, pd.DataFrame):
        return [{"monitor": "c14.shape", "sig": sig, "detail": f"crosstab returned {type(res).__name__}"}]
    rlabs = cmp.labels_of(res.index)
    clabs = cmp.labels_of(res.columns)
    cells = {}
    arr = res.to_numpy()
    for i, rl in enumerate(rlabs):
        for j, cl in enumerate(clabs):
            cells[(rl, cl)] = cmp.py(arr[i, j])
    levels = []
    if margins in (True, "row"):
        levels += list(range(nr))
    if margins in (True, "column"):
        levels += list(range(nr, nk))
    ref_all = model.margins_model(lk, vals, sel, func, levels, nk)
    # sub-totals over part of a side's keys are margins too: every combination of the requested positions
    ref = {(lab[:nr], lab[nr:]): e for lab, e in ref_all.items()}
    tol = _tol(func, vs, n)
    want_rows = {rc[0] for rc in ref}
    want_cols = {rc[1] for rc in ref}
    if set(rlabs) != want_rows or set(clabs) != want_cols:
        any_selected = any(lk[i] is not None for i in sel)
        if any_selected:
            fails.append({"monitor": "c14.labels", "sig": sig, "detail": f"crosstab rows {sorted(set(rlabs) ^ want_rows, key=repr)[:4]} / columns {sorted(set(clabs) ^ want_cols, key=repr)[:4]} differ from the observed labels (+ requested margins)"})
            return fails
    for (r, c), g in cells.items():
        e = ref.get((r, c), "absent")
        ismargin = any(x == "All" for x in r + c)
        if e == "absent":
            ctx.count("crosstab_absent_cells")
            nothing_selected = not any(lk[i] is not None for i in sel)
            if nothing_selected and all(x == "All" for x in r + c) and (cmp.is_null(g) or g == 0):
                continue  # optional neutral grand total
            if not cmp.is_null(g):
                fails.append({"monitor": "c14.crosstab", "sig": sig + "|absent", "detail": f"crosstab cell {r!r} x {c!r} has no rows but holds {g!r}"})
                break
            continue
        ctx.count("crosstab_margin_cells" if ismargin else "crosstab_cells_checked")
        if e is None:
            ok = cmp.is_null(g)
        elif func in ("size", "count"):
            ok = (not cmp.is_null(g)) and float(g) == float(e)
        else:
            ok = not cmp.is_null(g) and abs(float(g) - float(e)) <= tol
        if not ok:
            fails.append({"monitor": "c14.crosstab", "sig": sig + ("|margin" if ismargin else ""), "detail": f"crosstab({func}, margins={margins}) cell {r!r} x {c!r}: library={g!r}, aggregation of the raw rows={float(e) if e is not None else None!r}"})
            break
    return fails


def check(case, ctx):
    return check_margins(case, ctx) if case["part"] == "margins" else check_crosstab(case, ctx)


def gen_case(rng, dtypes):
    part = "margins" if rng.random() < 0.6 else "crosstab"
    n = int(rng.integers(1, 41))
    nk = gen.pick(rng, [1, 2, 2, 3]) if part == "margins" else gen.pick(rng, [2, 2, 3, 3, 4])
    kinds = ["int", "str", "float", "bool", "int", "str"]
    keys = [gen.gen_key(rng, n, kind=gen.pick(rng, kinds), nlabels=int(rng.integers(1, 4)), null_p=gen.pick(rng, [0.0, 0.0, 0.15]), name=f"k{i}") for i in range(nk)]
    lk = common.lkeys_ns(keys)
    func = gen.pick(rng, FUNCS)
    dtype = gen.pick(rng, dtypes)
    val = gen.gen_vals(rng, n, dtype, magnitude="small" if np.dtype(dtype).kind in "iu" else gen.pick(rng, ["small", "frac", "offset"]), name="v")
    mask = gen.gen_mask(rng, n, kind=gen.pick(rng, ["none", "none", "bool"]), lkeys=lk)
    case = {"part": part, "n": n, "keys": keys, "val": val, "mask": mask, "func": func, "op": func, "params": {}, "sort": True, "vc": "np", "index": None}
    if part == "margins":
        if rng.random() < 0.5 or nk == 1:
            case["margins"] = True
        else:
            r = int(rng.integers(1, nk + 1))
            case["margins"] = [int(x) for x in rng.choice(nk, size=r, replace=False)]  # positions in any order
        case["sort"] = bool(rng.random() < 0.8)
        common.add_route(rng, case, 0.2)
    else:
        case["nrow"] = int(rng.integers(1, nk)) if nk < 4 else 2
        case["margins"] = gen.pick(rng, [False, True, "row", "column"])
    return case


def run(ctx):
    dtypes = DT[ctx.shard % len(DT)]
    rng = gen.rng_for(ctx.seed, "C14", ctx.shard, 1 if ctx.mode != "prod" else 0)
    ncases = N_CASES[ctx.tier] if ctx.mode == "prod" else max(50, N_CASES[ctx.tier] // 3)
    for _ in range(ncases):
        ctx.run_case(gen_case(rng, dtypes), check, features, nontrivial, common.shrink)
