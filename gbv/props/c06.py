"""C06 - rows with a null key never influence any group (relational deletion, constancy, non-interference)."""
import numpy as np

from .. import cmp, gen, lib, model, ops
from . import common

LEVEL = "exploration"
RULE = ("seeded random datasets whose keys carry nulls (any subset of rows incl. all rows; first/middle/last key of a "
        "multi-key) x every operation (reductions, transform, var/std/median/quantile, cumulative, rolling, shift/diff, "
        "EMA plain+timed, head/tail/nth, groups, group_nearby_members). Each case: the call on the full input, the call "
        "after deleting the null-key rows, and the call after perturbing the values at null-key rows. distinct = case "
        "digests; non-trivial = at least one null-key row and at least one non-null-key row")
ASSUMPTIONS = [
    "the marker written at null-key rows is not prescribed, only that it is one constant per call and unaffected by other rows",
    "floating sums/means compared within 4(n+2)*eps*sum|x| against the deleted-rows run; perturbation runs compared exactly",
    "group_nearby_members sub-group ids are compared as a partition of the rows, not by number",
]
OPS = ops.RED + ["var", "std", "median", "quantile"] + ops.CUM + ops.ROLL + ops.SHIFT + ["ema", "ema"] + ops.SEL + ["nearby"]
N_CASES = {"quick": 800, "thorough": 8000}
ops.KIND.setdefault("nearby", "row")


def plan(tier):
    return common.std_plan(tier)


def required_counters(tier):
    return ["null_first_key", "null_last_key", "all_keys_null", "transform_runs", "perturbed_runs", "groups_checked", "nearby_runs"]


def features(case):
    f = common.std_features(case)
    ks = case["keys"]
    if any(v is None for v in ks[0]["vals"]):
        f.append("null_first_key")
    if len(ks) > 1 and any(v is None for v in ks[-1]["vals"]):
        f.append("null_last_key")
    if len(ks) > 2 and any(v is None for v in ks[1]["vals"]):
        f.append("null_middle_key")
    lk = common.lkeys_ns(ks)
    if all(k is None for k in lk):
        f.append("all_keys_null")
    return f


def nontrivial(case):
    lk = common.lkeys_ns(case["keys"])
    return any(k is None for k in lk) and any(k is not None for k in lk)


def _restrict(case, keep):
    c = common.with_rows(case, keep)
    m = case.get("mask")
    if m is not None:
        c["mask"] = dict(m, vals=[m["vals"][i] for i in keep])
    return c


def _const_marker(vals, rows):
    """are the outputs at `rows` one constant (bit-equal, nulls equal)?"""
    seen = None
    for i in rows:
        v = vals[i]
        key = ("null",) if cmp.is_null(v) else ("v", v)
        if seen is None:
            seen = key
        elif key != seen:
            return False, seen, key
    return True, seen, seen


def _nearby(case, valspec=None):
    """GroupBy.group_nearby_members on monotone values."""
    keys_obj, _, _, _ = ops.build_inputs(case)
    gb = ops.make_gb(keys_obj, sort=case.get("sort", True))
    if lib.raised(gb):
        return gb
    vs = valspec or case["val"]
    v = np.array(vs["vals"], dtype="float64")
    return lib.call(gb.group_nearby_members, v, case["params"]["max_diff"])


def _partition(ids, rows):
    d = {}
    for pos, i in enumerate(rows):
        d.setdefault(int(ids[i]), []).append(pos)
    return sorted(d.values())


def check(case, ctx):
    fails = []
    n, op = case["n"], case["op"]
    lk = common.lkeys_ns(case["keys"])
    keep = [i for i in range(n) if lk[i] is not None]
    nulls = [i for i in range(n) if lk[i] is None]
    dk = np.dtype(case["val"]["dtype"]).kind
    sig0 = f"{op}|{dk}"

    # ---- groups: no null-key row in any list, exactly the model's partition
    keys_obj, _, _, _ = ops.build_inputs(case)
    gb = ops.make_gb(keys_obj, sort=case.get("sort", True))
    if lib.raised(gb):
        return [{"monitor": "c06.raised", "sig": "construct", "detail": f"GroupBy raised {gb!r}"}]
    g = lib.call(lambda: gb.groups)
    if lib.raised(g):
        fails.append({"monitor": "c06.raised", "sig": "groups", "detail": f"groups raised {g!r}"})
    else:
        ctx.count("groups_checked")
        got = {}
        for lab, pos in g.items():
            got[tuple(cmp.py(x) for x in lab) if isinstance(lab, tuple) else (cmp.py(lab),)] = [int(p) for p in pos]
        ref = model.group_rows(lk)
        if got != {k: v for k, v in ref.items()}:
            bad = [i for v in got.values() for i in v if i in set(nulls)]
            fails.append({"monitor": "c06.groups", "sig": "groups", "detail": f"groups differ from the partition of non-null-key rows; null-key rows listed: {bad[:5]}; got={got} ref={ref}"})

    if op == "nearby":
        ctx.count("nearby_runs")
        r1 = _nearby(case)
        if lib.raised(r1):
            return fails + [{"monitor": "c06.raised", "sig": "nearby", "detail": f"group_nearby_members raised {r1!r}"}]
        r1 = np.asarray(r1)
        if keep:
            c2 = _restrict(case, keep)
            r2 = _nearby(c2)
            if not lib.raised(r2) and _partition(r1, keep) != _partition(np.asarray(r2), list(range(len(keep)))):
                fails.append({"monitor": "c06.delete", "sig": "nearby", "detail": f"sub-groups change when null-key rows are deleted: {r1.tolist()} vs {np.asarray(r2).tolist()}"})
        if nulls:
            ok, a, b = _const_marker(r1.tolist(), nulls)
            if not ok:
                fails.append({"monitor": "c06.marker", "sig": "nearby", "detail": f"null-key rows get different outputs {a} / {b}: {r1.tolist()}"})
        return fails

    kind = ops.KIND[op]
    tol = ops.float_tol(op, case["val"], n)
    variants = [False]
    if op in ops.TRANSFORMABLE and case.get("do_transform"):
        variants.append(True)
    for tr in variants:
        sig = sig0 + ("|T" if tr else "")
        r1 = ops.execute(case, transform=tr)
        if r1.raised is not None:
            fails.append({"monitor": "c06.raised", "sig": f"{sig}|{type(r1.raised.exc).__name__}", "detail": f"{op}(transform={tr}) raised {r1.raised!r}"})
            continue
        if tr:
            ctx.count("transform_runs")
        rowlike = tr or kind == "row"
        # ---- (a) deletion
        if keep:
            c2 = _restrict(case, keep)
            r2 = ops.execute(c2, transform=tr)
            if r2.raised is not None:
                fails.append({"monitor": "c06.raised", "sig": f"{sig}|deleted|{type(r2.raised.exc).__name__}", "detail": f"{op} on the input without null-key rows raised {r2.raised!r}"})
            elif rowlike:
                d = ops.diff_rows([r1.vals[i] for i in keep], r2.vals, tol, nullzero=op in ("var", "std"), what=f"{op} full vs null-key rows deleted", rows=keep)
                if d:
                    fails.append({"monitor": "c06.delete", "sig": sig, "detail": d})
            elif kind == "red":
                d = ops.diff_red(r1, r2, tol, nullzero=op in ("var", "std"), what=f"{op} full vs null-key rows deleted")
                if d:
                    fails.append({"monitor": "c06.delete", "sig": sig, "detail": d})
            else:  # selection
                a = list(zip(r1.index, r1.vals))
                b = list(zip(r2.index, r2.vals))
                if a != b and not (len(a) == len(b) and all(x[0] == y[0] and ops.same_value(x[1], y[1], 0) for x, y in zip(a, b))):
                    fails.append({"monitor": "c06.delete", "sig": sig, "detail": f"{op}{case['params']}: selected rows differ: {a[:6]} vs {b[:6]}"})
        else:
            if kind == "red" and not tr and r1.labels:
                fails.append({"monitor": "c06.delete", "sig": sig + "|allnull", "detail": f"{op}: every key is null but labels {r1.labels[:3]} reported"})
            if kind == "sel" and r1.vals:
                fails.append({"monitor": "c06.delete", "sig": sig + "|allnull", "detail": f"{op}: every key is null but rows {r1.index[:3]} selected"})
        # ---- (b) constant marker at null-key rows
        if rowlike and nulls:
            ok, a, b = _const_marker(r1.vals, nulls)
            if not ok:
                fails.append({"monitor": "c06.marker", "sig": sig, "detail": f"{op}: null-key rows get different outputs {a} / {b}"})
        # ---- (c) values at null-key rows must not matter
        if nulls and op not in ("size", "cumcount"):
            pv = common.perturb_vals(case["val"], nulls, case.get("pseed", 1))
            r3 = ops.execute(case, valspec=pv, transform=tr)
            ctx.count("perturbed_runs")
            if r3.raised is not None:
                fails.append({"monitor": "c06.interference", "sig": sig + "|raised", "detail": f"{op}: raised after perturbing null-key rows' values: {r3.raised!r}"})
            elif rowlike:
                d = ops.diff_rows([r1.vals[i] for i in keep], [r3.vals[i] for i in keep], 0.0, what=f"{op} after perturbing values at null-key rows", rows=keep)
                if not d:
                    ok, a3, _ = _const_marker(r3.vals, nulls)
                    ok1, a1, _ = _const_marker(r1.vals, nulls)
                    if ok and ok1 and a3 != a1:
                        d = f"{op}: marker at null-key rows changed from {a1} to {a3} when their values changed"
                if d:
                    fails.append({"monitor": "c06.interference", "sig": sig, "detail": d})
            elif kind == "red":
                d = ops.diff_red(r1, r3, 0.0, what=f"{op} after perturbing values at null-key rows")
                if d:
                    fails.append({"monitor": "c06.interference", "sig": sig, "detail": d})
    return fails


def gen_case(rng, dtypes):
    op_pool = OPS
    case = common.gen_opcase(rng, [o for o in op_pool if o != "nearby"], dtypes, null_p=gen.pick(rng, [0.15, 0.4, 0.4, 0.7]),
                             mask_kinds=["none", "none", "bool"])
    n = case["n"]
    if rng.random() < 0.06:
        case["op"] = "nearby"
        case["params"] = {"max_diff": float(gen.pick(rng, [0.5, 1.0, 3.0]))}
        case["val"] = {"dtype": "float64", "name": None, "null_mode": "none",
                       "vals": [float(x) for x in np.cumsum(rng.choice([0.0, 0.25, 1.0, 2.0, 5.0], size=n))]}
        case["mask"] = None
    if case["op"] in ops.SEL or case["index"] is None:
        if case["op"] in ops.SEL:
            case["vc"] = "pd"
            case["index"] = {"kind": "int", "vals": [int(x) for x in rng.permutation(n) + 100]}
    case["do_transform"] = bool(rng.random() < 0.5)
    common.add_route(rng, case, 0.2)
    case["pseed"] = int(rng.integers(1 << 30))
    return case


def run(ctx):
    dtypes = common.ALL_DTYPE_SHARDS[ctx.shard % len(common.ALL_DTYPE_SHARDS)]
    rng = gen.rng_for(ctx.seed, "C06", ctx.shard, 1 if ctx.mode != "prod" else 0)
    ncases = N_CASES[ctx.tier] if ctx.mode == "prod" else max(50, N_CASES[ctx.tier] // 3)
    for _ in range(ncases):
        ctx.run_case(gen_case(rng, dtypes), check, features, nontrivial, common.shrink)
