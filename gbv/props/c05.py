"""C05 - a mask is equivalent to filtering the rows first (relational monitor + non-interference)."""
import numpy as np

from .. import cmp, gen, lib, model, ops
from . import common

LEVEL = "exploration"
RULE = ("seeded random logical datasets x every maskable operation (8 reductions, var/std, median/quantile, cumulative, "
        "rolling, shift/diff, EMA plain and timed) x mask kinds (bool array/Series, slice incl. negative bounds, integer "
        "positions incl. repeated/unsorted/negative for reductions). Each case runs the real call three times: with the mask, "
        "on the filtered rows without a mask, and with the unselected rows' values perturbed; about a third of the cases run all "
        "three calls on the multi-threaded or the chunk-wise key route (scaled thresholds). distinct = case digests; "
        "non-trivial = the mask is present, selects at least one row with a non-null key and leaves at least one row out")
ASSUMPTIONS = [
    "row-aligned operations are driven with boolean masks only (the only kind they document); reductions with all kinds",
    "floating sums/means compared within 4(n+2)*eps*sum|x|; everything else exact; non-interference compared exactly",
    "outputs at unselected rows are not constrained by the property",
    "known finding K02 (alpha-EMA decays on masked rows, required by the repository's tests) is suppressed by mechanism only",
]
OPS = ops.RED + ["var", "std", "median", "quantile"] + ops.CUM + ops.ROLL + ops.SHIFT + ["ema", "ema"]
N_CASES = {"quick": 900, "thorough": 8000}


def plan(tier):
    return common.std_plan(tier)


def required_counters(tier):
    return ["mask_emptied_group", "mask_all_false", "perturbed_runs", "row_aligned_cases", "slice_negative", "pos_repeated", "strategy:threads", "strategy:chunked_keys", "strategy:arrow_chunked_keys", "slice_over_chunked_keys", "slice_negative_start_over_chunked_keys"]


def features(case):
    n = case["n"]
    lk = common.lkeys_ns(case["keys"])
    m = case["mask"]
    f = common.std_features(case)
    if m is None:
        return f
    sel = gen.mask_selection(m, n)
    if len(model.group_rows(lk, sel)) < len(model.group_rows(lk)):
        f.append("mask_emptied_group")
    if not sel:
        f.append("mask_all_false")
    if ops.KIND[case["op"]] == "row":
        f.append("row_aligned_cases")
    if m["kind"] == "slice" and ((m["start"] or 0) < 0 or (m["stop"] or 0) < 0):
        f.append("slice_negative")
    if m["kind"] == "pos" and len(set(sel)) < len(sel):
        f.append("pos_repeated")
    return f


def nontrivial(case):
    m = case["mask"]
    if m is None:
        return False
    lk = common.lkeys_ns(case["keys"])
    sel = gen.mask_selection(m, case["n"])
    return any(lk[i] is not None for i in sel) and len(set(sel)) < case["n"]


def check(case, ctx):
    st = case.get("strategy")
    m = case.get("mask")
    if m and m["kind"] == "slice" and (case.get("kc") == ["pa_chunked"] or "chunk_threshold" in (st or {})):
        ctx.count("slice_over_chunked_keys")
        if (m["start"] or 0) < 0:
            ctx.count("slice_negative_start_over_chunked_keys")
    if case.get("kc") == ["pa_chunked"]:
        ctx.count("strategy:arrow_chunked_keys")
    if not st:
        return _check(case, ctx)
    ctx.count("strategy:" + ("threads" if "rows_per_thread" in st else "chunked_keys"))
    lib.set_strategy(**st)
    try:
        return _check(case, ctx)
    finally:
        lib.reset_strategy()


def _check(case, ctx):
    fails = []
    n, op = case["n"], case["op"]
    m = case["mask"]
    kind = ops.KIND[op]
    tol = ops.float_tol(op, case["val"], n)
    r1 = ops.execute(case)
    if m is None:
        if r1.raised is not None:
            fails.append({"monitor": "c05.raised", "sig": f"{op}|nomask", "detail": f"{op} without mask raised {r1.raised!r}"})
        return fails
    sel = gen.mask_selection(m, n)
    if r1.raised is not None:
        return [{"monitor": "c05.raised", "sig": f"{op}|{m['kind']}|{type(r1.raised.exc).__name__}",
                 "detail": f"{op}(mask kind {m['kind']}) raised {r1.raised!r}"}]
    # ---- (a) mask == filter first
    if sel:
        fcase = common.with_rows(case, sel)
        r2 = ops.execute(fcase)
        if r2.raised is not None:
            ctx.count("filtered_side_raised")
        elif kind == "red":
            d = ops.diff_red(r1, r2, tol, nullzero=op in ("var", "std"), what=f"{op} mask vs filtered")
            if d:
                fails.append({"monitor": "c05.filter", "sig": f"{op}|{m['kind']}|{np.dtype(case['val']['dtype']).kind}", "detail": d})
        else:
            a = [r1.vals[i] for i in sel]
            d = ops.diff_rows(a, r2.vals, tol, nullzero=op in ("var", "std"), what=f"{op} mask vs filtered (selected rows)", rows=sel)
            if d:
                fails.append({"monitor": "c05.filter", "sig": f"{op}|{m['kind']}|{np.dtype(case['val']['dtype']).kind}", "detail": d})
    else:
        if kind == "red" and r1.labels:
            fails.append({"monitor": "c05.filter", "sig": f"{op}|allfalse", "detail": f"{op}: mask selects nothing but labels {r1.labels[:3]} reported"})
    # ---- (b) non-interference: values at unselected rows must not matter
    unsel = sorted(set(range(n)) - set(sel))
    if unsel and op not in ("size", "cumcount"):
        pv = common.perturb_vals(case["val"], unsel, case.get("pseed", 1))
        r3 = ops.execute(case, valspec=pv)
        ctx.count("perturbed_runs")
        if r3.raised is not None:
            fails.append({"monitor": "c05.interference", "sig": f"{op}|raised", "detail": f"{op}: raised after perturbing unselected rows: {r3.raised!r}"})
        elif kind == "red":
            d = ops.diff_red(r1, r3, 0.0, what=f"{op} after perturbing unselected rows")
            if d:
                fails.append({"monitor": "c05.interference", "sig": f"{op}|{m['kind']}", "detail": d})
        else:
            d = ops.diff_rows([r1.vals[i] for i in sel], [r3.vals[i] for i in sel], 0.0, what=f"{op} after perturbing unselected rows", rows=sel)
            if d:
                fails.append({"monitor": "c05.interference", "sig": f"{op}|{m['kind']}", "detail": d})
    return fails


def gen_case(rng, dtypes):
    case = common.gen_opcase(rng, OPS, dtypes)
    case["pseed"] = int(rng.integers(1 << 30))
    n = case["n"]
    r = rng.random()
    # the multi-threaded and chunk-wise routes split masks differently: drive the same relation there
    if r < 0.2 and case["op"] in ops.RED + ["var", "std"]:
        case["strategy"] = {"rows_per_thread": max(1, n // int(rng.integers(2, 5)))}
    elif r < 0.35 and len(case["keys"]) == 1 and case["keys"][0]["kind"] != "cat" and n >= 4:
        case["strategy"] = {"chunk_threshold": int(gen.pick(rng, [2, 4])), "key_chunks": int(rng.integers(2, 5))}
    elif r < 0.45 and len(case["keys"]) == 1 and case["keys"][0]["kind"] not in ("cat", "bool", "range") and n >= 4 and not case.get("kc"):
        case["kc"] = ["pa_chunked"]
        case["ksplits"] = gen.random_splits(rng, n, 5) or [1]
    if (case.get("kc") == ["pa_chunked"] or "chunk_threshold" in (case.get("strategy") or {})) and case["op"] in ops.RED and rng.random() < 0.6:
        # a slice over chunk-factorized keys leaves out whole key chunks: every way of writing its bounds (None, from the front, from the back)
        def bound(lo):
            q = rng.random()
            if q < 0.2:
                return None
            if q < 0.6:
                return int(rng.integers(lo, n + 1))
            return -int(rng.integers(1, n + 1))
        case["mask"] = {"kind": "slice", "start": bound(0), "stop": gen.pick(rng, [None, None, bound(1)]), "step": None}
    return case


def run(ctx):
    err = model.selfcheck() if ctx.shard == 0 else None
    if err:
        raise RuntimeError(err)
    dtypes = common.ALL_DTYPE_SHARDS[ctx.shard % len(common.ALL_DTYPE_SHARDS)]
    rng = gen.rng_for(ctx.seed, "C05", ctx.shard, 1 if ctx.mode != "prod" else 0)
    ncases = N_CASES[ctx.tier] if ctx.mode == "prod" else max(50, N_CASES[ctx.tier] // 3)
    for _ in range(ncases):
        ctx.run_case(gen_case(rng, dtypes), check, features, nontrivial, common.shrink)
