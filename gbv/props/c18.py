"""C18 - misaligned inputs are rejected, never silently mis-grouped (accept/reject grid monitor)."""
import numpy as np
import pandas as pd

from .. import cmp, gen, lib
from . import common

LEVEL = "exploration"
RULE = ("enumerated grid: every public operation (GroupBy reductions incl. var/std/median/quantile/agg/apply/ratio/"
        "subset_ratio/density, transform, cumulative, rolling, shift/diff, ema plain+timed, head/tail/nth, crosstab; stand-alone "
        "ema, ema_grouped, numba group_*/cum*/rolling_* kernels, group_nearby_members) x each of its array arguments (values, "
        "second values, boolean mask, subset mask, timestamps, column keys) x perturbation (length n-3..n+3, 0, 2n; for "
        "pandas arguments with pandas keys: permuted, shifted, duplicated and reset (0..n-1) index of the right length), over seeded small "
        "datasets with numpy or pandas keys. The aligned call must return; every perturbed call must raise (type and message "
        "free). distinct = (operation, argument, perturbation, dataset) tuples; non-trivial = every perturbed call")
ASSUMPTIONS = [
    "only boolean masks are perturbed (integer positions and slices legitimately have other lengths)",
    "an index perturbation is only a misalignment when the keys themselves carry a pandas index; with numpy keys only lengths are perturbed",
    "exception types and messages are not compared",
]
N_CASES = {"quick": 60, "thorough": 1500}
NSHARDS = 8


def plan(tier):
    p = [dict(shard=i, nshards=NSHARDS, mode="prod") for i in range(NSHARDS)]
    p.append(dict(shard=0, nshards=NSHARDS, mode="bounds"))
    if tier == "thorough":
        p += [dict(shard=i, nshards=NSHARDS, mode="bounds") for i in range(1, NSHARDS)]
    return p


def required_counters(tier):
    return ["aligned_calls_returned", "perturbed_calls", "perturbed_rejected", "index_perturbations", "length_perturbations", "extension_bool_masks", "aligned_equal_index_calls", "multiindex_keys"]


def _gb_ops():
    """name -> (argument names, callable(gb, a))"""
    f2 = lambda x: x * 2
    d = {}
    for r in ["count", "sum", "mean", "min", "max", "first", "last", "var", "std", "median"]:
        d[r] = (["values", "mask"], (lambda r: lambda gb, a: getattr(gb, r)(a["values"], mask=a["mask"]))(r))
        d[r + "_T"] = (["values", "mask"], (lambda r: lambda gb, a: getattr(gb, r)(a["values"], mask=a["mask"], transform=True))(r))
    d["size"] = (["mask"], lambda gb, a: gb.size(mask=a["mask"]))
    d["size_T"] = (["mask"], lambda gb, a: gb.size(mask=a["mask"], transform=True))
    d["quantile"] = (["values", "mask"], lambda gb, a: gb.quantile(a["values"], [0.25, 0.5], mask=a["mask"]))
    d["agg"] = (["values", "mask"], lambda gb, a: gb.agg(a["values"], ["sum", "max"], mask=a["mask"]))
    d["apply"] = (["values", "mask"], lambda gb, a: gb.apply(a["values"], np.sum, mask=a["mask"]))
    d["ratio"] = (["values", "values2", "mask"], lambda gb, a: gb.ratio(a["values"], a["values2"], mask=a["mask"]))
    d["subset_ratio"] = (["values", "subset_mask", "mask"], lambda gb, a: gb.subset_ratio(a["values"], a["subset_mask"], global_mask=a["mask"]))
    d["density"] = (["values", "mask"], lambda gb, a: gb.density(a["values"], mask=a["mask"]))
    for c in ["cumsum", "cummin", "cummax"]:
        d[c] = (["values", "mask"], (lambda c: lambda gb, a: getattr(gb, c)(a["values"], mask=a["mask"]))(c))
    d["cumcount"] = (["mask"], lambda gb, a: gb.cumcount(mask=a["mask"]))
    for c in ["rolling_sum", "rolling_mean", "rolling_min", "rolling_max"]:
        d[c] = (["values", "mask"], (lambda c: lambda gb, a: getattr(gb, c)(a["values"], window=2, min_periods=1, mask=a["mask"]))(c))
    d["rolling_sum_bg"] = (["values", "mask"], lambda gb, a: gb.rolling_sum(a["values"], window=2, min_periods=1, mask=a["mask"], index_by_groups=True))
    d["shift"] = (["values", "mask"], lambda gb, a: gb.shift(a["values"], window=1, mask=a["mask"]))
    d["diff"] = (["values", "mask"], lambda gb, a: gb.diff(a["values"], window=1, mask=a["mask"]))
    d["ema"] = (["values", "mask"], lambda gb, a: gb.ema(a["values"], alpha=0.5, mask=a["mask"]))
    d["ema_timed"] = (["values", "times", "mask"], lambda gb, a: gb.ema(a["values"], halflife="1s", times=a["times"], mask=a["mask"]))
    d["ema_bg"] = (["values", "mask"], lambda gb, a: gb.ema(a["values"], alpha=0.5, mask=a["mask"], index_by_groups=True))
    for s in ["head", "tail", "nth"]:
        d[s] = (["values"], (lambda s: lambda gb, a: getattr(gb, s)(a["values"], 1, keep_input_index=True))(s))
    d["head_frame"] = (["values", "values2"], lambda gb, a: gb.head([a["values"], a["values2"]], 1, keep_input_index=True))
    d["sum_two"] = (["values", "values2", "mask"], lambda gb, a: gb.sum([a["values"], a["values2"]], mask=a["mask"]))
    d["nearby"] = (["values"], lambda gb, a: gb.group_nearby_members(np.sort(np.asarray(a["values"], dtype="float64")) if False else a["values"], 1.0))
    return d


def _standalone_ops():
    import groupby_lib.groupby.numba as nbk
    from groupby_lib import ema, ema_grouped
    from groupby_lib.groupby.core import crosstab

    d = {}
    for k in ["count", "sum", "mean", "min", "max", "first", "last", "sum_squares"]:
        d["nb.group_" + k] = (["codes", "values", "mask"], (lambda k: lambda _, a: getattr(nbk, "group_" + k)(a["codes"], a["values"], a["ngroups"], mask=a["mask"]))(k))
    d["nb.group_sum_nt2"] = (["codes", "values", "mask"], lambda _, a: nbk.group_sum(a["codes"], a["values"], a["ngroups"], mask=a["mask"], n_threads=2))
    d["nb.group_size"] = (["codes", "mask"], lambda _, a: nbk.group_size(a["codes"], a["ngroups"], mask=a["mask"]))
    for k in ["cumsum", "cummin", "cummax"]:
        d["nb." + k] = (["codes", "values", "mask"], (lambda k: lambda _, a: getattr(nbk, k)(a["codes"], a["values"], a["ngroups"], mask=a["mask"]))(k))
    for k in ["rolling_sum", "rolling_mean", "rolling_min", "rolling_max"]:
        d["nb." + k] = (["codes", "values", "mask"], (lambda k: lambda _, a: getattr(nbk, k)(a["codes"], a["values"], a["ngroups"], window=2, min_periods=1, mask=a["mask"]))(k))
    d["nb.rolling_shift"] = (["codes", "values", "mask"], lambda _, a: nbk.rolling_shift(a["codes"], a["values"], a["ngroups"], window=1, mask=a["mask"]))
    d["nb.group_nearby_members"] = (["codes", "values"], lambda _, a: nbk.group_nearby_members(a["codes"], a["values"], 1.0, a["ngroups"]))
    d["ema_grouped"] = (["codes", "values", "mask"], lambda _, a: ema_grouped(a["codes"], a["ngroups"], a["values"], alpha=0.5, mask=a["mask"]))
    d["ema_grouped_timed"] = (["codes", "values", "times", "mask"], lambda _, a: ema_grouped(a["codes"], a["ngroups"], a["values"], halflife="1s", times=a["times"], mask=a["mask"]))
    d["ema_timed_ungrouped"] = (["values", "times"], lambda _, a: ema(a["values"], halflife="1s", times=a["times"]))
    d["crosstab"] = (["keys", "keys2", "values", "mask"], lambda _, a: crosstab(a["keys"], a["keys2"], a["values"], aggfunc="sum", mask=a["mask"]))
    d["crosstab_size"] = (["keys", "keys2", "mask"], lambda _, a: crosstab(a["keys"], a["keys2"], mask=a["mask"]))
    return d


LEN_PERT = ["n-1", "n-2", "n-3", "n+1", "n+2", "n+3", "0", "2n"]
IDX_PERT = ["permuted", "shifted", "duplicated", "reset", "reset_int"]


def perturb(obj, kind, n, rng):
    """misaligned version of one argument."""
    arr = obj.to_numpy() if isinstance(obj, pd.Series) else np.asarray(obj)
    ext_dtype = obj.dtype if isinstance(obj, pd.Series) and not isinstance(obj.dtype, np.dtype) else None
    if ext_dtype is not None:
        bad = perturb(pd.Series(arr.astype(bool), index=obj.index, name=obj.name), kind, n, rng)
        return None if bad is None else bad.astype(ext_dtype)
    if kind in LEN_PERT:
        m = {"n-1": n - 1, "n-2": n - 2, "n-3": n - 3, "n+1": n + 1, "n+2": n + 2, "n+3": n + 3, "0": 0, "2n": 2 * n}[kind]
        if m < 0:
            return None
        new = np.resize(arr, m) if m else arr[:0]
        if arr.dtype.kind == "M" and m > n:
            new = np.sort(new)
        if isinstance(obj, pd.Series):
            idx = obj.index[:m] if m <= n else obj.index.append(pd.Index(range(10_000, 10_000 + m - n)))
            return pd.Series(new, index=idx, name=obj.name)
        return new
    if not isinstance(obj, pd.Series):
        return None
    if kind == "permuted":
        p = np.roll(np.arange(n), 1)
        return pd.Series(arr, index=obj.index[p], name=obj.name) if n > 1 else None
    if kind == "shifted":
        return pd.Series(arr, index=obj.index + 1 if obj.index.dtype.kind in "iu" else obj.index.map(lambda s: str(s) + "x"), name=obj.name)
    if kind in ("reset", "reset_int"):
        # same length, labels thrown away (reset_index(drop=True)): 0..n-1 is still a set of labels, and not the keys' ones
        return pd.Series(arr, index=pd.RangeIndex(n) if kind == "reset" else pd.Index(np.arange(n, dtype="int64")), name=obj.name)
    if kind == "duplicated":
        return pd.Series(arr, index=pd.Index([obj.index[0]] * n), name=obj.name) if n > 1 else None
    return None


def features(case):
    return [f"op={case['op']}|keys={'pd' if case['pd_keys'] else 'np'}|mask={case.get('mask_dtype', 'bool')}"]


def nontrivial(case):
    return True


def check(case, ctx):
    from groupby_lib import GroupBy

    rng = np.random.Generator(np.random.PCG64(case["seed"]))
    n = case["n"]
    pdk = case["pd_keys"]
    codes = rng.integers(0, 3, size=n)
    codes[:3] = [0, 1, 2][: min(3, n)]
    lab = np.array(["a", "b", "c"])[codes] if case["keykind"] == "str" else (codes * 10).astype("int64")
    index = pd.Index(rng.permutation(n) * 2 + 100) if pdk else None
    rebuilt = None
    if pdk and case.get("index_kind") == "multi":
        # a two-level index cut out of a larger frame: it still carries the level entries of the rows that are gone
        tuples = [(int(q) // 3, "xyz"[int(q) % 3]) for q in rng.permutation(n)]
        index = pd.MultiIndex.from_tuples(tuples + [(1000 + i, "w") for i in range(n)], names=["i0", "i1"])[:n]
        rebuilt = pd.MultiIndex.from_tuples(tuples, names=["i0", "i1"])  # the same labels, encoded afresh
        ctx.count("multiindex_keys")
    W = (lambda x, name=None: pd.Series(x, index=index, name=name)) if pdk else (lambda x, name=None: x)
    keys = W(lab, "k")
    keys2 = W(np.array(["x", "y"])[rng.integers(0, 2, size=n)], "k2")
    vals = np.round(rng.normal(0, 5, size=n), 1) if case["vkind"] == "float" else rng.integers(-9, 10, size=n).astype("int64")
    vals2 = np.round(rng.normal(0, 5, size=n), 1) if case["vkind"] == "float" else rng.integers(1, 10, size=n).astype("int64")
    if case["vkind"] == "dt":
        # temporal values take their own pre-processing path (unwrapped to bare arrays before the kernels)
        vals = (rng.integers(0, 10**6, size=n) + 1_600_000_000 * 10**6).astype("int64").view("M8[us]")
        vals2 = (rng.integers(0, 10**6, size=n) + 1_600_000_000 * 10**6).astype("int64").view("M8[us]")
    tms = (np.cumsum(rng.integers(0, 5, size=n)) + 1_600_000_000).astype("int64").astype("M8[s]").astype("M8[ns]")
    a0 = {"values": W(vals, "v"), "values2": W(vals2, "v2"), "mask": W(rng.random(n) < 0.7) if case["with_mask"] else None,
          "subset_mask": W(rng.random(n) < 0.5), "times": W(tms), "codes": codes.astype("int64"), "ngroups": 3, "keys": keys, "keys2": keys2}
    if a0["mask"] is not None and not np.asarray(a0["mask"]).any():
        m0 = np.asarray(a0["mask"]).copy()
        m0[0] = True  # keep the aligned control call away from the open finding K03 (nothing selected)
        a0["mask"] = W(m0)
    mk = case.get("mask_dtype", "bool")
    if pdk and mk != "bool" and a0["mask"] is not None:
        # boolean masks also come as pandas nullable / Arrow-backed booleans: the same alignment rules apply
        a0["mask"] = a0["mask"].astype("boolean" if mk == "boolean" else "bool[pyarrow]")
    op = case["op"]
    table = _gb_ops() if not op.startswith(("nb.", "ema_grouped", "ema_timed_ungrouped", "crosstab")) else _standalone_ops()
    argnames, fn = table[op]
    standalone = table is not None and op in _standalone_ops()
    if standalone:
        a0 = dict(a0)
        if op.startswith("nb.") or op.startswith("ema_grouped"):
            for k in ("values", "values2", "mask", "subset_mask", "times"):
                if isinstance(a0[k], pd.Series) and not case.get("standalone_pd"):
                    a0[k] = a0[k].to_numpy()
    gb = None
    fails = []
    if not standalone:
        gb = lib.call(GroupBy, keys)
        if lib.raised(gb):
            return [{"monitor": "c18.aligned_rejected", "sig": "construct", "detail": f"GroupBy(keys) raised {gb!r}"}]
    if op == "nearby":
        a0["values"] = W(np.cumsum(np.abs(vals)).astype("float64"))
    if op == "nb.group_nearby_members":
        a0["values"] = np.cumsum(np.abs(vals)).astype("float64")
    if case.get("mask_dtype", "bool") != "bool" and pdk:
        ctx.count("extension_bool_masks")
    base = lib.call(fn, gb, a0)
    if lib.raised(base):
        return [{"monitor": "c18.aligned_rejected", "sig": f"{op}|{type(base.exc).__name__}", "detail": f"aligned call {op} (keys {'pandas' if pdk else 'numpy'}, n={n}) raised {base!r}"}]
    ctx.count("aligned_calls_returned")
    # ---- the converse: an index that is EQUAL to the keys' index (another object, or the same labels encoded differently) is aligned
    if pdk and (not standalone or op.startswith("crosstab")):
        for arg in argnames:
            if not isinstance(a0.get(arg), pd.Series) or arg == "keys":
                continue
            for how in ("copy", "rebuilt"):
                same = index.copy() if how == "copy" else (rebuilt if rebuilt is not None else pd.Index(index.tolist()))
                a1 = dict(a0)
                a1[arg] = a0[arg].set_axis(same)
                r = lib.call(fn, GroupBy(keys) if not standalone else gb, a1)
                ctx.count("aligned_equal_index_calls")
                if lib.raised(r):
                    return [{"monitor": "c18.aligned_rejected", "sig": f"{op}|{arg}|equal_index", "detail": f"{op}: argument '{arg}' carrying an index equal to the keys' index ({how}, "
                             f"{type(index).__name__}) was rejected: {r!r}"}]
    for arg in argnames:
        if a0.get(arg) is None:
            continue
        kinds = list(LEN_PERT)
        # an index can only be misaligned with keys that carry one: GroupBy on pandas keys, crosstab on pandas keys
        if isinstance(a0[arg], pd.Series) and pdk and (not standalone or op.startswith("crosstab")):
            kinds += IDX_PERT
        for kind in kinds:
            bad = perturb(a0[arg], kind, n, rng)
            if bad is None:
                continue
            a1 = dict(a0)
            a1[arg] = bad
            if arg in ("keys",) and not standalone:
                continue
            if not standalone:
                gb = GroupBy(keys)  # fresh object: a failed call must not matter here
            r = lib.call(fn, gb, a1)
            ctx.count("perturbed_calls")
            ctx.count("index_perturbations" if kind in IDX_PERT else "length_perturbations")
            import hashlib

            ctx.digests.add(hashlib.blake2b(repr((op, arg, kind, case["seed"])).encode(), digest_size=8).digest())
            if lib.raised(r):
                ctx.count("perturbed_rejected")
                ctx.counters[f"grid|{op}|{arg}|{kind}|rejected"] += 1
            else:
                ctx.counters[f"grid|{op}|{arg}|{kind}|ACCEPTED"] += 1
                fails.append({"monitor": "c18.accepted", "sig": f"{op}|{arg}|{'index' if kind in IDX_PERT else ('longer' if kind in ('n+1', 'n+2', 'n+3', '2n') else 'shorter')}",
                              "detail": f"{op}: argument '{arg}' with {kind} ({'pandas' if pdk else 'numpy'} keys, n={n}, len={len(bad)}) was accepted and returned {str(type(r).__name__)}"})
    # keep the failure list short: one per signature
    seen, out = set(), []
    for f in fails:
        if f["sig"] not in seen:
            seen.add(f["sig"])
            out.append(f)
    return out


def run(ctx):
    ops_all = sorted(_gb_ops()) + sorted(_standalone_ops())
    mine = [o for i, o in enumerate(ops_all) if i % ctx.nshards == ctx.shard]
    rng = gen.rng_for(ctx.seed, "C18", ctx.shard, 1 if ctx.mode != "prod" else 0)
    reps = {"quick": 6, "thorough": 40}[ctx.tier] if ctx.mode == "prod" else 1
    for rep in range(reps):
        for op in mine:
            for pdk in (False, True):
                vk = gen.pick(rng, ["float", "int", "dt"])
                if vk == "dt" and (op.split("_T")[0] in ("sum", "var", "std", "median", "quantile", "agg", "apply", "ratio", "subset_ratio", "density", "cumsum", "sum_two", "nearby",
                                                         "rolling_sum", "rolling_mean", "rolling_sum_bg", "ema", "ema_timed", "ema_bg", "mean") or op.startswith(("nb.", "ema_", "crosstab"))):
                    vk = "float"
                case = {"op": op, "n": int(rng.integers(4, 12)), "pd_keys": pdk, "index_kind": gen.pick(rng, ["flat", "flat", "multi"]) if pdk else "flat", "keykind": gen.pick(rng, ["int", "str"]), "vkind": vk,
                        "with_mask": True, "seed": int(rng.integers(1 << 30)), "standalone_pd": bool(rng.random() < 0.5), "noshrink": True,
                        "mask_dtype": gen.pick(rng, ["bool", "bool", "boolean", "bool[pyarrow]"]) if pdk and not op.startswith(("nb.", "ema_grouped", "crosstab")) else "bool"}
                ctx.run_case(case, check, features, nontrivial)


def evidence_extra(agg):
    grid = {k[5:]: v for k, v in agg["counters"].items() if k.startswith("grid|")}
    acc = {k: v for k, v in grid.items() if k.endswith("ACCEPTED")}
    return {"evaluations": int(agg["counters"].get("perturbed_calls", 0) + agg["counters"].get("aligned_calls_returned", 0)), "datasets": agg["n_eval"],
            "grid_cells": len(grid), "grid_cells_accepting_misaligned_input": len(acc), "grid": dict(sorted(grid.items())[:600])}
