"""C15 - head/tail/nth select exactly the requested rows of each group (reference-model monitor on positions)."""
import numpy as np
import pandas as pd

from .. import cmp, gen, lib, model, ops
from . import common

LEVEL = "exploration"
RULE = ("seeded random datasets (<=5 interleaved groups, null keys, 1-3 keys) x head/tail/nth with n from 0 to beyond the "
        "largest group (negative n for nth) x 1-D and multi-column values carrying a unique row id (second column float64/float32/int64; ids also beyond 2**53 for 64-bit integers) x arbitrary input index "
        "(default, permuted, duplicated, string); plus large single-group blocks of 32767/32768/65535/65536/70000/200000 "
        "rows. keep_input_index=True throughout. Each returned row is identified through its unique value and compared "
        "with the model's positions: same set of rows, each once, original index label, values bit-equal, original "
        "relative order within a group, no null-key row. distinct = case digests; non-trivial = a group has more rows "
        "than |n| and another has fewer or equal")
ASSUMPTIONS = [
    "only the order of rows *within* a group is constrained; the order between groups is free",
    "values are unique per row so that a returned row identifies its source position even with a duplicated index",
]
N_CASES = {"quick": 1200, "thorough": 12000}
BIG = [32767, 32768, 65535, 65536, 70000, 200000]


def plan(tier):
    p = [dict(shard=i, nshards=8, mode="prod") for i in range(8)]
    p.append(dict(shard=100, nshards=1, mode="prod"))
    p.append(dict(shard=0, nshards=8, mode="bounds"))
    if tier == "thorough":
        p += [dict(shard=i, nshards=8, mode="bounds") for i in range(1, 4)]
    return p


def required_counters(tier):
    return ["n_beyond_largest_group", "negative_n", "duplicate_index", "multi_column", "multi_column_ids_beyond_2**53", "null_keys", "group>65536"]


def features(case):
    f = [f"op={case['op']}|n={case['params']['n']}"]
    if case.get("big"):
        f.append(f"group_size={case['n']}")
        if case["n"] > 65536:
            f.append("group>65536")
        return f
    lk = common.lkeys_ns(case["keys"])
    g = model.group_rows(lk)
    mx = max((len(r) for r in g.values()), default=0)
    n = case["params"]["n"]
    if abs(n) > mx:
        f.append("n_beyond_largest_group")
    if n < 0:
        f.append("negative_n")
    if case.get("index") is not None and len(set(case["index"]["vals"])) < case["n"]:
        f.append("duplicate_index")
    if case.get("ncols", 1) > 1:
        f.append("multi_column")
        if case.get("voffset"):
            f.append("multi_column_ids_beyond_2**53")
    if any(k is None for k in lk):
        f.append("null_keys")
    return f


def nontrivial(case):
    if case.get("big"):
        return True
    lk = common.lkeys_ns(case["keys"])
    sizes = [len(r) for r in model.group_rows(lk).values()]
    n = abs(case["params"]["n"])
    return len(sizes) >= 2 and max(sizes) > n >= 0 and min(sizes) <= max(n, 1)


def _values(case, n):
    """unique row ids as values: col0 = base + 3*i (dtype varies), col1 = -(i) float."""
    dtype = case.get("vdtype", "int64")
    base = np.arange(n, dtype="int64") * 3 + 7 + int(case.get("voffset", 0))
    if dtype.startswith("datetime64") or dtype.startswith("timedelta64"):
        v0 = (base + 1_700_000_000_000_000_000 // gen.UNIT_NS[gen.dtype_unit(dtype)]).view(dtype) if dtype.startswith("datetime") else base.view(dtype)
    else:
        v0 = base.astype(dtype)
    v1 = -(np.arange(n, dtype="float64")) - 0.5
    if case.get("v1dtype", "float64") == "int64":
        v1 = -(np.arange(n, dtype="int64")) - 1
    return v0, v1.astype(case.get("v1dtype", "float64"))


def check(case, ctx):
    from groupby_lib import GroupBy

    fails = []
    op, k = case["op"], case["params"]["n"]
    n = case["n"]
    if case.get("big"):
        keys = np.zeros(n, dtype="int64")
        rng = np.random.Generator(np.random.PCG64(case["seed"]))
        extra = rng.random(n) < 0.001
        keys[extra] = 1
        lk = [(int(x),) for x in keys]
        keys_obj = keys
        idx = None
    else:
        lk = common.lkeys_ns(case["keys"])
        keys_obj, _, _, idx = ops.build_inputs(dict(case, val=None))
    v0, v1 = _values(case, n)
    idx_vals = case["index"]["vals"] if case.get("index") is not None else list(range(n))
    if case.get("ncols", 1) > 1:
        values = pd.DataFrame({"a": v0, "b": v1}, index=idx) if case.get("frame", True) else [pd.Series(v0, index=idx, name="a"), pd.Series(v1, index=idx, name="b")]
    else:
        values = pd.Series(v0, index=idx, name="a") if (idx is not None or case.get("vc") == "pd") else v0
    gb = lib.call(GroupBy, keys_obj, sort=case.get("sort", True))
    if lib.raised(gb):
        return [{"monitor": "c15.raised", "sig": "construct", "detail": f"GroupBy raised {gb!r}"}]
    res = lib.call(getattr(gb, op), values, k, keep_input_index=True)
    sig = f"{op}|{'big' if case.get('big') else 'small'}"
    if lib.raised(res):
        return [{"monitor": "c15.raised", "sig": f"{sig}|{type(res.exc).__name__}", "detail": f"{op}(n={k}) raised {res!r}"}]
    groups, want = model.select_rows(lk, op, k)
    if isinstance(res, pd.DataFrame):
        col0 = res.iloc[:, 0].to_numpy()
        col1 = res.iloc[:, 1].to_numpy() if res.shape[1] > 1 else None
    else:
        col0 = np.asarray(res.to_numpy() if hasattr(res, "to_numpy") else res)
        col1 = None
    if col0.dtype != v0.dtype:
        fails.append({"monitor": "c15.values", "sig": sig, "detail": f"{op}: value dtype changed from {v0.dtype} to {col0.dtype}"})
        return fails
    raw = col0.view("int64") if col0.dtype.kind in "mM" else col0.astype("int64")
    base0 = v0.view("int64") if v0.dtype.kind in "mM" else v0.astype("int64")
    off = int(base0[0]) if n else 0
    pos = (raw - off)
    if n and ((pos % 3 != 0).any() or (pos < 0).any() or (pos // 3 >= n).any()):
        return [{"monitor": "c15.values", "sig": sig, "detail": f"{op}(n={k}): a returned value is not an input value: {col0[:5]!r}"}]
    pos = (pos // 3).astype("int64")
    got = pos.tolist()
    if sorted(got) != want:
        gs, ws = set(got), set(want)
        dup = len(got) - len(gs)
        nullsel = [i for i in gs if lk[i] is None]
        fails.append({"monitor": "c15.rows", "sig": sig, "detail": f"{op}(n={k}): selected rows differ from the definition: missing={sorted(ws - gs)[:5]} extra={sorted(gs - ws)[:5]} repeated={dup} null-key rows selected={nullsel[:3]}; n_rows={n}"})
        return fails
    # index labels are the originals
    ridx = res.index.tolist() if hasattr(res, "index") else None
    if ridx is not None:
        exp = [idx_vals[i] for i in got]
        if [cmp.py(x) for x in ridx] != exp:
            j = next(j for j, (a, b) in enumerate(zip(ridx, exp)) if cmp.py(a) != b)
            fails.append({"monitor": "c15.index", "sig": sig, "detail": f"{op}(n={k}): row from position {got[j]} carries index {ridx[j]!r}, original label {exp[j]!r}"})
    if col1 is not None:
        if col1.dtype != v1.dtype:
            fails.append({"monitor": "c15.values", "sig": sig, "detail": f"{op}: second column dtype changed from {v1.dtype} to {col1.dtype}"})
        elif not np.array_equal(col1, v1[pos]):
            fails.append({"monitor": "c15.values", "sig": sig, "detail": f"{op}(n={k}): second column does not belong to the same rows"})
    # original relative order within a group
    last = {}
    for p in got:
        g = lk[p]
        if g in last and last[g] > p:
            fails.append({"monitor": "c15.order", "sig": sig, "detail": f"{op}(n={k}): rows {last[g]} and {p} of group {g!r} are returned in reversed order"})
            break
        last[g] = p
    return fails


def gen_case(rng):
    n = int(rng.integers(1, 41))
    nkeys = gen.pick(rng, [1, 1, 1, 2, 3])
    keys = [gen.gen_key(rng, n, nlabels=int(rng.integers(1, 6)), name=gen.pick(rng, [None, f"k{i}"])) for i in range(nkeys)]
    op = gen.pick(rng, ops.SEL)
    lk = common.lkeys_ns(keys)
    mx = max((len(r) for r in model.group_rows(lk).values()), default=1)
    k = int(rng.integers(0, mx + 3))
    if op == "nth" and rng.random() < 0.5:
        k = -int(rng.integers(1, mx + 3))
    case = {"n": n, "keys": keys, "op": op, "params": {"n": k}, "sort": bool(rng.random() < 0.7), "mask": None,
            "vdtype": gen.pick(rng, ["int64", "int64", "float64", "int32", "datetime64[ns]", "timedelta64[us]", "uint16", "float32", "uint64"]),
            "ncols": gen.pick(rng, [1, 1, 2]), "frame": bool(rng.random() < 0.5), "vc": gen.pick(rng, ["np", "pd"]),
            "index": gen.gen_index(rng, n), "val": {"dtype": "int64", "vals": []}}
    if case["vdtype"] in ("int64", "uint64") and rng.random() < 0.5:
        # 64-bit ids beyond 2**53: any detour of the values through float64 (or a common dtype of several columns) alters them
        case["voffset"] = int(gen.pick(rng, [2**53 + 1, 2**62 + 1, -2**62 - 1 if case["vdtype"] == "int64" else 2**61 + 3]))
    case["v1dtype"] = gen.pick(rng, ["float64", "float64", "float32", "int64"])
    common.add_route(rng, case, 0.2)
    return case


def run(ctx):
    if ctx.shard == 100:
        sizes = BIG if ctx.tier == "thorough" else [32768, 65536, 70000]
        j = 0
        for size in sizes:
            # n itself beyond 32767 / 65535 as well: the per-group fill counters must not be narrower than n
            for op, k in ([("nth", 100), ("nth", 40000), ("nth", -33000), ("head", 3), ("tail", 2), ("head", 66000), ("tail", 65536), ("head", 32768)]
                          if ctx.tier == "thorough" else [("nth", 40000), ("tail", 2), ("head", 66000), ("tail", 65536)]):
                j += 1
                if abs(k) >= size and op == "nth":
                    k = size // 2 + 1000 if k > 0 else -(size // 2 + 1000)
                case = {"big": True, "n": size, "op": op, "params": {"n": k}, "seed": int(ctx.seed) * 1000 + j, "noshrink": True,
                        "keys": [], "mask": None, "val": {"dtype": "int64", "vals": []}}
                ctx.run_case(case, check, features, nontrivial)
        return
    err = model.selfcheck() if ctx.shard == 0 else None
    if err:
        raise RuntimeError(err)
    rng = gen.rng_for(ctx.seed, "C15", ctx.shard, 1 if ctx.mode != "prod" else 0)
    ncases = N_CASES[ctx.tier] if ctx.mode == "prod" else max(50, N_CASES[ctx.tier] // 3)
    for _ in range(ncases):
        ctx.run_case(gen_case(rng), check, features, nontrivial, common.shrink)
