"""C16 - variance, quantiles and composite statistics match their definitions."""
import math
from fractions import Fraction

import numpy as np
import pandas as pd

from .. import cmp, gen, lib, model, ops
from . import common

LEVEL = "exploration"
RULE = ("seeded random datasets (magnitudes 1e-6..1e12, offsets of 1e9 with unit spread, nulls, masks, unused categories, "
        "null keys, 1-2 keys) x var/std (ddof 0/1) against the exact rational two-pass value; median and quantile (scalar and "
        "list q, ascending or not) against np.median / np.quantile on each group's selected values; apply with user functions returning a "
        "scalar, a fixed-length vector or an input-aligned vector against calling the function on each group's values in "
        "row order; agg([...]) against the individual calls; ratio against sum/sum; single-key density against shares in "
        "percent adding up to 100. distinct = case digests; non-trivial = some group has >= 2 selected non-null values")
ASSUMPTIONS = [
    "var within 16(n+2)*eps*max(x^2) of the exact value (eps of the value dtype), std within the square root of that bound; "
    "a null is accepted where the exact variance lies within the bound of zero (sum-of-squares cancellation)",
    "median/quantile compared to 1e-12 relative; user functions see the selected values of the group in row order, nulls included",
    "ratio is driven with values of equal nullity (documented precondition)",
]
SUBS = ["var", "std", "var", "median", "quantile", "apply_scalar", "apply_fixed", "apply_aligned", "agg", "ratio", "density"]
N_CASES = {"quick": 500, "thorough": 12000}
FSCALAR = {"np.sum": np.sum, "np.ptp": lambda x: float(np.max(x) - np.min(x)), "len": len, "np.mean": np.mean}
FFIXED = {"minmax": lambda x: np.array([np.min(x), np.max(x)]), "q3": lambda x: np.quantile(x, [0.25, 0.5, 0.75])}
FALIGNED = {"demean": lambda x: x - np.mean(x), "cumsum": np.cumsum, "double": lambda x: x * 2}
DT = [["float64"], ["float64", "float32"], ["int64", "int32"], ["float64", "uint8"], ["float32", "int16"], ["float64", "int64"], ["float64"], ["uint16", "float64"]]


def plan(tier):
    p = [dict(shard=i, nshards=len(DT), mode="prod") for i in range(len(DT))]
    p.append(dict(shard=0, nshards=len(DT), mode="bounds"))
    if tier == "thorough":
        p += [dict(shard=i, nshards=len(DT), mode="bounds") for i in range(1, len(DT))]
    return p


def required_counters(tier):
    return [f"sub:{s}" for s in set(SUBS)] + ["offset_magnitude", "ddof0", "masked", "unused_category_or_emptied_group", "multi_column_apply", "int_group_sum_above_3e9", "quantile_levels_not_ascending"]


def features(case):
    f = [f"sub={case['sub']}|dt={case['val']['dtype']}"]
    if case["mask"] is not None:
        f.append("masked")
    if case["params"].get("ddof") == 0:
        f.append("ddof0")
    if case.get("magnitude") == "offset":
        f.append("offset_magnitude")
    if case.get("magnitude") == "mid":
        lk_ = common.lkeys_ns(case["keys"])
        for rows in model.group_rows(lk_).values():
            if abs(sum(case["val"]["vals"][i] or 0 for i in rows)) > 3_100_000_000:
                f.append("int_group_sum_above_3e9")
                break
    lk = common.lkeys_ns(case["keys"])
    sel = gen.mask_selection(case["mask"], case["n"])
    if len(model.group_rows(lk, sel)) < len(model.group_rows(lk)) or any(k["kind"] == "cat" for k in case["keys"]):
        f.append("unused_category_or_emptied_group")
    return f


def nontrivial(case):
    lk = common.lkeys_ns(case["keys"])
    sel = gen.mask_selection(case["mask"], case["n"])
    vals = case["val"]["vals"]
    return any(sum(vals[i] is not None for i in r) >= 2 for r in model.group_rows(lk, sel).values())


def _gb(case):
    keys_obj, val, mask, idx = ops.build_inputs(case)
    gb = ops.make_gb(keys_obj, sort=case.get("sort", True))
    return gb, val, mask, idx


def _groups(case):
    lk = common.lkeys_ns(case["keys"])
    sel = gen.mask_selection(case["mask"], case["n"])
    return lk, sel, model.group_rows(lk, sel)


def _np_group(case, rows):
    return gen.val_np(case["val"])[rows]


def check(case, ctx):
    sub = case["sub"]
    ctx.count(f"sub:{sub}")
    fails = []
    n = case["n"]
    lk, sel, groups = _groups(case)
    vals = case["val"]["vals"]
    dtype = case["val"]["dtype"]
    eps = cmp.EPS.get(dtype, cmp.EPS["float64"])
    gb, val, mask, idx = _gb(case)
    if lib.raised(gb):
        return [{"monitor": "c16.raised", "sig": "construct", "detail": f"GroupBy raised {gb!r}"}]
    sig = f"{sub}|{np.dtype(dtype).kind}"

    def raised(r, what):
        if lib.raised(r):
            fails.append({"monitor": "c16.raised", "sig": f"{sig}|{type(r.exc).__name__}", "op": "apply" if sub in ("median", "quantile") or sub.startswith("apply") else sub,
                          "detail": f"{what} raised {r!r}"})
            return True
        return False

    if sub in ("var", "std"):
        ddof = case["params"]["ddof"]
        r = lib.call(getattr(gb, sub), val, mask=mask, ddof=ddof)
        if raised(r, f"{sub}(ddof={ddof})"):
            return fails
        got = ops.normalise(r, "red").as_map()
        if set(got) != set(groups):
            return [{"monitor": "c16.labels", "sig": sig, "detail": f"{sub}: labels {sorted(got, key=repr)[:5]} vs expected {sorted(groups, key=repr)[:5]}"}]
        for k, rows in groups.items():
            xs = [vals[i] for i in rows]
            e = model.variance(xs, ddof)
            nn = [abs(float(x)) for x in xs if x is not None]
            mx = max(nn) if nn else 0.0
            tolv = 16.0 * (len(nn) + 2) * eps * mx * mx + 1e-300
            g = got[k]
            if e is None:
                ok = cmp.is_null(g) or (isinstance(g, float) and math.isinf(g))
            else:
                if sub == "std":
                    e2, tol = math.sqrt(e), math.sqrt(tolv)
                else:
                    e2, tol = e, tolv
                ok = (not cmp.is_null(g) and abs(g - e2) <= tol) or (cmp.is_null(g) and abs(e2) <= tol)
            if not ok:
                fails.append({"monitor": "c16.var", "sig": sig, "detail": f"{sub}(ddof={ddof}) dtype={dtype} label {k!r}: library={g!r} two-pass={e!r} ({'sqrt ' if sub == 'std' else ''}bound {tolv:.3g}); values={xs[:8]}"})
                break
        return fails

    if sub in ("median", "quantile", "apply_scalar") and case.get("two_cols") and np.dtype(dtype).kind in "fiu":
        # several value columns at once: each column must equal the single-column call (groups without rows are skipped
        # per column, so the flat result list has to be cut correctly)
        ctx.count("multi_column_apply")
        a = gen.val_np(case["val"])
        b = a[::-1].copy()
        frame = pd.DataFrame({"a": a, "b": b}, index=idx if case.get("vc") == "pd" or (case["mask"] is not None and case["mask"]["kind"] == "bool_series") else None)
        def one(x):
            if sub == "median":
                return lib.call(gb.median, x, mask=mask)
            if sub == "quantile":
                return lib.call(gb.quantile, x, q=case["params"]["q"], mask=mask)
            return lib.call(gb.apply, x, {**FSCALAR}[case["params"]["func"]], mask=mask)
        both, ra, rb = one(frame), one(a), one(b)
        if not (lib.raised(ra) or lib.raised(rb)):
            if lib.raised(both):
                fails.append({"monitor": "c16.columns", "sig": f"{sig}|raised", "detail": f"{sub} on two value columns raised {both!r} while each column alone returns"})
            elif not isinstance(both, pd.DataFrame) or both.shape[1] != 2:
                fails.append({"monitor": "c16.columns", "sig": f"{sig}|shape", "detail": f"{sub} on two value columns returned {type(both).__name__} {getattr(both, 'shape', None)}"})
            else:
                for j, single in enumerate((ra, rb)):
                    d = ops.diff_red(ops.normalise(both.iloc[:, j], "red"), ops.normalise(single, "red"), 0.0, what=f"{sub}: column {j} of the two-column call vs the single-column call")
                    if d:
                        fails.append({"monitor": "c16.columns", "sig": sig, "detail": d})
                        break
        if fails:
            return fails

    if sub in ("median", "quantile"):
        q = case["params"].get("q")
        if np.ndim(q) and list(q) != sorted(q):
            ctx.count("quantile_levels_not_ascending")
        r = lib.call(gb.median, val, mask=mask) if sub == "median" else lib.call(gb.quantile, val, q=q, mask=mask)
        if raised(r, sub):
            return fails
        res = ops.normalise(r, "red")
        if sub == "median" or np.ndim(q) == 0:
            got = res.as_map()
            if set(got) != set(groups):
                return [{"monitor": "c16.labels", "sig": sig, "detail": f"{sub}: labels {sorted(got, key=repr)[:5]} vs expected {sorted(groups, key=repr)[:5]}"}]
            for k, rows in groups.items():
                a = _np_group(case, rows)
                with np.errstate(all="ignore"):
                    e = float(np.median(a)) if sub == "median" else float(np.quantile(a, q))
                g = got[k]
                if not ((math.isnan(e) and cmp.is_null(g)) or (not cmp.is_null(g) and abs(g - e) <= 1e-12 * max(1.0, abs(e)))):
                    fails.append({"monitor": "c16.quantile", "sig": sig, "detail": f"{sub} label {k!r}: library={g!r} numpy={e!r}; values={a.tolist()[:8]}"})
                    break
        else:
            got = dict(zip(res.labels, res.vals))
            for k, rows in groups.items():
                a = _np_group(case, rows)
                with np.errstate(all="ignore"):
                    e = np.quantile(a, q)
                for qq, ee in zip(q, e):
                    g = got.get(tuple(k) + (qq,), "missing")
                    if g == "missing" or not ((math.isnan(ee) and cmp.is_null(g)) or (not cmp.is_null(g) and abs(g - ee) <= 1e-12 * max(1.0, abs(ee)))):
                        fails.append({"monitor": "c16.quantile", "sig": sig, "detail": f"quantile(q={q}) label {k!r} q={qq}: library={g!r} numpy={float(ee)!r}; index={res.labels[:4]}"})
                        return fails
            if len(got) != len(groups) * len(q):
                fails.append({"monitor": "c16.labels", "sig": sig, "detail": f"quantile: {len(got)} rows for {len(groups)} groups x {len(q)} quantiles"})
        return fails

    if sub.startswith("apply"):
        fname = case["params"]["func"]
        f = {**FSCALAR, **FFIXED, **FALIGNED}[fname]
        r = lib.call(gb.apply, val, f, mask=mask)
        if raised(r, f"apply({fname})"):
            return fails
        res = ops.normalise(r, "red")
        got = {}
        for l, v in zip(res.labels, res.vals):
            got.setdefault(l, []).append(v)
        order = gen.sort_labels(common.keyspecs_ns(case["keys"]), list(groups)) if case.get("sort", True) else list(groups)
        idxv = case["index"]["vals"] if case.get("index") is not None and case.get("vc") == "pd" else list(range(n))
        for k in order:
            rows = groups[k]
            a = _np_group(case, rows)
            with np.errstate(all="ignore"):
                e = f(a)
            if sub == "apply_scalar":
                exp = {tuple(k): [float(e)]}
            elif sub == "apply_fixed":
                exp = {tuple(k) + (j,): [float(x)] for j, x in enumerate(np.asarray(e))}
            else:
                exp = {}
                for i, x in zip(rows, np.asarray(e)):
                    exp.setdefault(tuple(k) + (idxv[i],), []).append(float(x))
            for lab, ev in exp.items():
                gv = got.get(lab)
                if gv is None or len(gv) != len(ev) or any(not ((math.isnan(b) and cmp.is_null(a_)) or (not cmp.is_null(a_) and abs(a_ - b) <= 1e-9 * max(1.0, abs(b)))) for a_, b in zip(gv, ev)):
                    fails.append({"monitor": "c16.apply", "sig": f"{sig}|{fname}", "detail": f"apply({fname}) label {lab!r}: library={gv!r} direct call={ev!r}; result index={res.labels[:5]}"})
                    return fails
        n_exp = sum(1 if sub == "apply_scalar" else (len(np.asarray(f(_np_group(case, groups[k])))) if True else 0) for k in order)
        if len(res.vals) != n_exp:
            fails.append({"monitor": "c16.apply", "sig": f"{sig}|{fname}|shape", "detail": f"apply({fname}): {len(res.vals)} rows, expected {n_exp}"})
        return fails

    if sub == "agg":
        funcs = case["params"]["funcs"]
        r = lib.call(gb.agg, val, funcs, mask=mask)
        if raised(r, f"agg({funcs})"):
            return fails
        if not isinstance(r, pd.DataFrame) or [str(c) for c in r.columns] != funcs:
            return [{"monitor": "c16.agg", "sig": sig, "detail": f"agg({funcs}) returned {type(r).__name__} with columns {list(getattr(r, 'columns', []))}"}]
        for fn in funcs:
            single = lib.call(getattr(gb, fn), val, mask=mask)
            if raised(single, fn):
                return fails
            a = ops.normalise(r[fn], "red")
            b = ops.normalise(single, "red")
            d = ops.diff_red(a, b, 0.0, what=f"agg column {fn} vs {fn}()")
            if d:
                fails.append({"monitor": "c16.agg", "sig": f"{sig}|{fn}", "detail": d})
                break
        return fails

    if sub == "ratio":
        v2 = gen.val_array(case["val2"], case.get("vc", "np"), index=idx)
        r = lib.call(gb.ratio, val, v2, mask=mask)
        if raised(r, "ratio"):
            return fails
        got = ops.normalise(r, "red").as_map()
        v2l = case["val2"]["vals"]
        for k, rows in groups.items():
            s1 = [vals[i] for i in rows if vals[i] is not None]
            s2 = [v2l[i] for i in rows if v2l[i] is not None]
            a, b = math.fsum(map(float, s1)), math.fsum(map(float, s2))
            g = got.get(k, "missing")
            if g == "missing":
                fails.append({"monitor": "c16.labels", "sig": sig, "detail": f"ratio: label {k!r} missing"})
                break
            if b == 0:
                continue  # division by zero: inf / nan, not constrained
            e = a / b
            tol = 8 * (len(rows) + 2) * eps * (math.fsum(abs(float(x)) for x in s1) / abs(b) + abs(e) * math.fsum(abs(float(x)) for x in s2) / abs(b)) + 1e-300
            if cmp.is_null(g) or abs(g - e) > tol:
                fails.append({"monitor": "c16.ratio", "sig": sig, "detail": f"ratio label {k!r}: library={g!r} sum/sum={e!r}"})
                break
        return fails

    if sub == "density":
        use_vals = case["params"].get("with_values")
        r = lib.call(gb.density, val if use_vals else None, mask=mask)
        if raised(r, "density"):
            return fails
        got = ops.normalise(r, "red").as_map()
        if use_vals:
            tot = {k: math.fsum(float(vals[i]) for i in rows if vals[i] is not None) for k, rows in groups.items()}
        else:
            tot = {k: float(len(rows)) for k, rows in groups.items()}
        T = math.fsum(tot.values())
        if T == 0 or not groups:
            return fails
        if set(got) != set(tot):
            return [{"monitor": "c16.labels", "sig": sig, "detail": f"density labels {sorted(got, key=repr)[:5]} vs {sorted(tot, key=repr)[:5]}"}]
        for k, t in tot.items():
            e = 100.0 * t / T
            if cmp.is_null(got[k]) or abs(got[k] - e) > 100.0 * 8 * (n + 2) * eps * (sum(abs(x) for x in tot.values()) / abs(T)) + 1e-9:
                fails.append({"monitor": "c16.density", "sig": sig, "detail": f"density label {k!r}: library={got[k]!r} share={e!r}"})
                break
        if not fails and not use_vals and abs(math.fsum(got.values()) - 100.0) > 1e-9:
            fails.append({"monitor": "c16.density", "sig": sig + "|sum", "detail": f"densities add up to {math.fsum(got.values())!r}"})
        return fails
    raise KeyError(sub)


def gen_case(rng, dtypes):
    sub = gen.pick(rng, SUBS)
    n = int(rng.integers(1, 61))
    nkeys = 1 if sub == "density" else gen.pick(rng, [1, 1, 1, 2])
    keys = [gen.gen_key(rng, n, name=gen.pick(rng, [None, f"k{i}"])) for i in range(nkeys)]
    lk = common.lkeys_ns(keys)
    dtype = gen.pick(rng, dtypes)
    dt = np.dtype(dtype)
    # integers up to 2e8: group sums beyond 3e9 (whose square leaves int64) while the sums of squares stay far inside float64
    mag = gen.pick(rng, ["small", "frac", "big", "offset", "tiny"]) if dt.kind == "f" else (gen.pick(rng, ["small", "mid", "mid"]) if dt.itemsize >= 4 else "small")
    val = gen.gen_vals(rng, n, dtype, magnitude="frac" if mag == "tiny" else mag, name=gen.pick(rng, [None, "v"]))
    if mag == "mid":
        val["vals"] = [None if v is None else abs(v) for v in val["vals"]]  # one sign: the group sums grow with the group
    if mag == "tiny":
        val["vals"] = [None if v is None else float(np.dtype(dtype).type(v * 1e-6)) for v in val["vals"]]
    if val["null_mode"] == "allnull_group":
        gen.null_out_group(val, lk, rng)
    mask = gen.gen_mask(rng, n, kind=gen.pick(rng, ["none", "none", "bool", "bool_series"]), lkeys=lk)
    case = {"n": n, "keys": keys, "val": val, "mask": mask, "sub": sub, "op": sub, "params": {}, "sort": bool(rng.random() < 0.8), "vc": gen.pick(rng, ["np", "pd"]),
            "index": None, "magnitude": mag}
    if case["vc"] == "pd" and rng.random() < 0.5:
        case["index"] = {"kind": "int", "vals": [int(x) for x in rng.permutation(n) + 10]}
    if mask is not None and mask["kind"] == "bool_series" and case["vc"] != "pd":
        mask["kind"] = "bool"
    if sub in ("var", "std"):
        case["params"] = {"ddof": int(rng.integers(0, 2))}
    elif sub == "quantile":
        case["params"] = {"q": gen.pick(rng, [[0.5], [0.25, 0.75], [0.0, 1.0], [0.1, 0.5, 0.9], 0.5, 0.3, [0.9, 0.1], [0.5, 0.99, 0.01], [1.0, 0.0],
                                            [float(x) for x in np.round(rng.permutation(np.linspace(0.05, 0.95, 7))[: int(rng.integers(2, 5))], 2)]])}
    elif sub == "apply_scalar":
        case["params"] = {"func": gen.pick(rng, list(FSCALAR))}
    elif sub == "apply_fixed":
        case["params"] = {"func": gen.pick(rng, list(FFIXED))}
    elif sub == "apply_aligned":
        case["params"] = {"func": gen.pick(rng, list(FALIGNED))}
        case["keys"] = [gen.gen_key(rng, n, kind=k["kind"], nlabels=int(rng.integers(2, 4)), name=k["name"]) for k in keys]
    elif sub == "agg":
        k = int(rng.integers(1, 4))
        case["params"] = {"funcs": [str(x) for x in rng.choice(["sum", "mean", "min", "max", "count", "first", "last"], size=k, replace=False)]}
    elif sub == "ratio":
        v2 = gen.gen_vals(rng, n, dtype, magnitude="small" if dt.kind != "f" else "frac", null_mode="none")
        v2["vals"] = [None if a is None else (b if b else 1) for a, b in zip(val["vals"], v2["vals"])]
        case["val2"] = v2
    elif sub == "density":
        case["params"] = {"with_values": bool(rng.random() < 0.5)}
        if case["params"]["with_values"]:
            val["vals"] = [None if v is None else abs(v) + 1 for v in val["vals"]]
    case["two_cols"] = bool(rng.random() < 0.35)
    common.add_route(rng, case, 0.2)
    return case


def run(ctx):
    dtypes = DT[ctx.shard % len(DT)]
    rng = gen.rng_for(ctx.seed, "C16", ctx.shard, 1 if ctx.mode != "prod" else 0)
    ncases = N_CASES[ctx.tier] if ctx.mode == "prod" else max(50, N_CASES[ctx.tier] // 3)
    for _ in range(ncases):
        ctx.run_case(gen_case(rng, dtypes), check, features, nontrivial, common.shrink)
