"""C13 - a GroupBy object can be reused: results are history-independent (history monitor)."""
import threading

import numpy as np
import pandas as pd

from .. import cmp, gen, lib, model, ops
from . import common

LEVEL = "exploration"
RULE = ("seeded random histories of 2-10 calls on ONE grouping object - reductions with fresh values and masks (in 60% of the "
        "histories written into the caller's same preallocated mask / value buffers, refilled in place between calls; one-mask-per-group sweeps), transform, "
        "groups, head/tail/nth, cumulative, rolling, median/quantile/apply, EMA, size, calls that fail (misaligned values, a "
        "raising user function), a repeat of an earlier call, replacing the object by GroupBy(object), the class-level form "
        "GroupBy.op(keys, ...) - for every key representation: contiguous, chunk-wise with per-chunk dictionaries (scaled "
        "threshold), pre-chunked Arrow keys, and what these turn into after lazy unification. Every call is compared with "
        "the same call on a freshly built grouping; the representation is observed after each call and the (state, op, next "
        "state) transition recorded; an icontract class invariant (labels, ngroups, length unchanged) runs after every public "
        "method including nested ones. distinct = history digests; non-trivial = history length >= 3 on >= 2 groups")
ASSUMPTIONS = [
    "a fresh grouping built from the same keys under the same thresholds is the reference for each call (the fresh object is "
    "tied to the definition by C01-C10)",
    "float sums/means compared within the C01 bound, everything else exactly",
]
N_HIST = {"quick": 220, "thorough": 2400}
STEP_OPS = ops.RED * 2 + ["var", "median", "quantile"] + ops.CUM + ops.ROLL + ops.SHIFT + ["ema"] + ops.SEL + ["groups", "groups"]
TLS = threading.local()
INV = {"evals": 0, "fails": []}
BIRTH = {}


def plan(tier):
    # state-dependent code paths are where out-of-bounds reads hide (they rarely change a number): more bounds-checked histories
    return common.std_plan(tier, bounds_quick=2)


def required_counters(tier):
    return ["state:contiguous", "state:chunked+pointers", "state:chunked+unified", "state:unified", "invariant_evaluations", "steps_compared",
            "copy_constructor_steps", "class_level_steps", "failing_steps", "repeat_steps", "mask_buffer_refilled_in_place", "value_buffer_refilled_in_place"]


ORIG_METHODS = {}


def install_invariant():
    """icontract class invariant on GroupBy: labels / ngroups / length never change after construction."""
    try:
        import icontract
    except ImportError:
        return False
    from groupby_lib import GroupBy

    if getattr(GroupBy, "_gbv_inv", False):
        return True

    def unchanged(self):
        if getattr(TLS, "busy", False):
            return True
        TLS.busy = True
        try:
            INV["evals"] += 1
            try:
                labels = tuple(map(repr, self.result_index.tolist()))
                n = len(self)
                ng = self.ngroups
            except AttributeError:
                return True  # half-built object inside __init__ of a subclass etc.
            born = self.__dict__.get("_gbv_birth")  # kept on the object itself: an id() is reused once a temporary grouping dies
            if born is None:
                self.__dict__["_gbv_birth"] = (labels, n)
                return ng == len(labels)
            ok = born == (labels, n) and ng == len(labels)
            if not ok:
                INV["fails"].append(f"labels/len changed: {born} -> {(labels, n)}; ngroups={ng}")
            return True  # record, never raise inside the library call
        finally:
            TLS.busy = False

    # the class-level call form (GroupBy.sum(raw_keys, ...)) hands a non-GroupBy first argument to the method, which icontract's
    # invariant wrapper cannot digest: those calls go to the methods as the library defines them
    ORIG_METHODS.update({k: v for k, v in vars(GroupBy).items() if callable(v) and not k.startswith("__")})
    icontract.invariant(unchanged)(GroupBy)
    GroupBy._gbv_inv = True
    return True


def state_of(gb, started_chunked):
    ch = bool(getattr(gb, "key_is_chunked", False))
    ptr = getattr(gb, "_group_key_pointers", None) is not None
    if ch and ptr:
        return "chunked+pointers"
    if ch:
        return "chunked+unified"
    return "unified" if started_chunked else "contiguous"


def features(case):
    return [f"len={len(case['steps'])}|rep={case['rep']}"] + [f"step={s['op']}" for s in case["steps"]]


def nontrivial(case):
    lk = common.lkeys_ns(case["keys"])
    return len(case["steps"]) >= 3 and len({k for k in lk if k is not None}) >= 2


def _raiser(x):
    raise RuntimeError("user function failed")


class _ClassLevel:
    """GroupBy.method(keys, ...) spelled as an object: attribute access gives the class-level form bound to the raw keys"""

    def __init__(self, keys_obj):
        self._keys = keys_obj

    def __getattr__(self, name):
        import functools

        from groupby_lib import GroupBy

        return functools.partial(ORIG_METHODS.get(name) or getattr(GroupBy, name), self._keys)


def run_step(gb, keys_obj, step, case, idx, bufs=None, ctx=None):
    """execute one step on grouping gb; returns Res.  bufs: the caller's preallocated buffers - a boolean mask / ndarray values
    of a dtype seen before are written into the SAME array object as last time (refilled in place between the calls), which is
    what a caller looping over masks does; results must depend on the contents at call time, not on the object's identity."""
    from groupby_lib import GroupBy

    op = step["op"]
    val = gen.val_array(step["val"], step.get("vc", "np"), index=idx) if step.get("val") else None
    mask = gen.mask_obj(step.get("mask"), index=idx)
    if bufs is not None:
        if isinstance(mask, np.ndarray) and mask.dtype == bool:
            if "mask" in bufs and ctx is not None:
                ctx.count("mask_buffer_refilled_in_place")
            b = bufs.setdefault("mask", np.empty(len(mask), dtype=bool))
            b[:] = mask
            mask = b
        if isinstance(val, np.ndarray) and val.ndim == 1:
            k = "val:" + str(val.dtype)
            if k in bufs and ctx is not None:
                ctx.count("value_buffer_refilled_in_place")
            b = bufs.setdefault(k, np.empty(len(val), dtype=val.dtype))
            b[:] = val
            val = b
    kind = step.get("kind", "ok")
    if kind == "fail_len":
        bad = np.asarray(gen.val_np(step["val"]))[:-1]
        return ops.normalise(lib.call(gb.sum, bad), "red")
    if kind == "fail_func":
        return ops.normalise(lib.call(gb.apply, val, _raiser), "red")
    if op == "groups":
        g = lib.call(lambda: gb.groups)
        r = ops.Res()
        r.kind = "groups"
        if lib.raised(g):
            r.raised = g
        else:
            r.vals = {(tuple(cmp.py(x) for x in k) if isinstance(k, tuple) else (cmp.py(k),)): [int(p) for p in v] for k, v in g.items()}
        return r
    times = ops.times_obj(step["times"], idx) if step.get("times") is not None else None
    if kind == "classlevel":
        gb = _ClassLevel(keys_obj)
    raw = ops.call_op(gb, op, step.get("params"), val, mask, transform=bool(step.get("transform")), times=times, extra=step.get("extra"))
    return ops.normalise(raw, "row" if step.get("transform") else ops.KIND[op])


def diff(a, b, step, n):
    op = step["op"]
    if (a.raised is None) != (b.raised is None):
        return f"reused object {'raised ' + repr(a.raised) if a.raised is not None else 'returned'}, fresh object {'raised ' + repr(b.raised) if b.raised is not None else 'returned'}"
    if a.raised is not None:
        return None
    if op == "groups":
        return None if a.vals == b.vals else f"groups differ: {list(a.vals.items())[:3]} vs {list(b.vals.items())[:3]}"
    tol = ops.float_tol(op, step["val"], n) if step.get("val") else 0.0
    if op == "ema":
        tol = 1e-12 * max([abs(float(v)) for v in step["val"]["vals"] if v is not None] + [1.0])
    nz = op in ("var", "std")
    kind = "row" if step.get("transform") else ops.KIND.get(op, "red")
    if step.get("kind") in ("fail_len", "fail_func"):
        kind = "red"
    if kind == "red":
        return ops.diff_red(a, b, tol, what=op, nullzero=nz)
    if kind == "row":
        if isinstance(a.vals, dict) or isinstance(b.vals, dict):
            return None if a.vals == b.vals else f"{op}: frames differ"
        if (step.get("extra") or {}).get("index_by_groups") and list(a.index or []) != list(b.index or []):
            return f"{op}(index_by_groups=True): row labels differ: {list(a.index or [])[:5]} vs {list(b.index or [])[:5]}"
        return ops.diff_rows(a.vals, b.vals, tol, what=op, nullzero=nz)
    x, y = list(zip(a.index, a.vals)), list(zip(b.index, b.vals))
    return None if len(x) == len(y) and all(p[0] == q[0] and ops.same_value(p[1], q[1], 0) for p, q in zip(x, y)) else f"{op}: selected rows differ {x[:4]} vs {y[:4]}"


def check(case, ctx):
    from groupby_lib import GroupBy

    fails = []
    n = case["n"]
    st = case.get("strategy")
    idx = gen.index_obj(case.get("index"))
    if st:
        lib.set_strategy(**st)
    try:
        keys_obj, _, _, _ = ops.build_inputs(dict(case, val=None, mask=None))
        gb = ops.make_gb(keys_obj, sort=case.get("sort", True))
        if lib.raised(gb):
            return [{"monitor": "c13.raised", "sig": "construct", "detail": f"GroupBy raised {gb!r}"}]
        started_chunked = bool(getattr(gb, "key_is_chunked", False))
        s0 = state_of(gb, started_chunked)
        ctx.count(f"state:{s0}")
        labels0 = cmp.labels_of(gb.result_index)
        seen = {}
        bufs = {} if case.get("shared_buffers") else None
        for j, step in enumerate(case["steps"]):
            kind = step.get("kind", "ok")
            if kind == "copy":
                g2 = lib.call(GroupBy, gb)
                ctx.count("copy_constructor_steps")
                if lib.raised(g2):
                    fails.append({"monitor": "c13.copy", "sig": "raised", "detail": f"GroupBy(existing) raised {g2!r} after steps {[s['op'] for s in case['steps'][:j]]}"})
                    break
                gb = g2
                continue
            if kind == "repeat":
                step = case["steps"][step["of"]]
                ctx.count("repeat_steps")
            if kind in ("fail_len", "fail_func"):
                ctx.count("failing_steps")
            if kind == "classlevel":
                ctx.count("class_level_steps")
            before = state_of(gb, started_chunked)
            r = run_step(gb, keys_obj, step, case, idx, bufs, ctx)
            after = state_of(gb, started_chunked)
            ctx.count(f"state:{after}")
            ctx.counters[f"transition|{before}|{step['op']}{'(T)' if step.get('transform') else ''}|{after}"] += 1
            if kind == "classlevel":
                # the class-level form with raw keys against the instance form on a fresh default grouping
                fresh = ops.make_gb(keys_obj)
                rf = run_step(fresh, keys_obj, dict(step, kind="ok"), case, idx)
            else:
                fresh = ops.make_gb(keys_obj, sort=case.get("sort", True))
                rf = run_step(fresh, keys_obj, step, case, idx)
            ctx.count("steps_compared")
            d = diff(r, rf, step, n)
            hist = [s["op"] + ("(T)" if s.get("transform") else "") + (":" + s.get("kind") if s.get("kind") else "") for s in case["steps"][: j + 1]]
            if d:
                fails.append({"monitor": "c13.history", "sig": f"{step['op']}|after:{before}", "detail": f"history {hist} (representation {before} -> {after}): {d}"})
                break
            if kind in ("fail_len", "fail_func") and r.raised is None:
                pass  # acceptance of misaligned input is C18's subject
            if cmp.labels_of(gb.result_index) != labels0 or len(gb) != n:
                fails.append({"monitor": "c13.invariant", "sig": step["op"], "detail": f"history {hist}: labels or length of the grouping changed"})
                break
        if INV["fails"]:
            fails.append({"monitor": "c13.invariant", "sig": "icontract", "detail": INV["fails"][0]})
            INV["fails"].clear()
        ctx.counters["invariant_evaluations"] = INV["evals"]
    finally:
        if st:
            lib.reset_strategy()
        BIRTH.clear()
    return fails


def gen_step(rng, n, lk, dtypes, allow_rows=True):
    op = gen.pick(rng, STEP_OPS)
    if op == "groups":
        return {"op": "groups"}
    from .. import ops as _o

    ok = [d for d in dtypes if _o.accepts(op, d)] or ["float64"]
    dtype = gen.pick(rng, ok)
    val = gen.gen_vals(rng, n, dtype, magnitude="small" if np.dtype(dtype).kind in "iu" else None)
    kind = _o.KIND[op]
    mk = ["none", "bool", "bool"] + (["slice", "pos"] if op in _o.RED else [])
    if op in _o.SEL:
        mk = ["none"]
    step = {"op": op, "val": val, "params": _o.gen_params(rng, op, n), "mask": gen.gen_mask(rng, n, kind=gen.pick(rng, mk), lkeys=lk)}
    if op in _o.TRANSFORMABLE and rng.random() < 0.3:
        step["transform"] = True
    if op == "ema" and "halflife" in step["params"] and rng.random() < 0.3:
        step["times"] = common.gen_times(rng, n)
        step["params"] = {"halflife": "1s"}
    r = rng.random()
    if r < 0.06:
        step["kind"] = "fail_len"
    elif r < 0.10 and np.dtype(dtype).kind in "fiu":
        step["kind"] = "fail_func"
    elif r < 0.22 and op not in _o.SEL:
        step["kind"] = "classlevel"
    if (op in _o.ROLL or op == "ema") and rng.random() < 0.3:
        step["extra"] = {"index_by_groups": True}
        step.pop("transform", None)
    return step


def gen_case(rng, dtypes, rep):
    n = int(rng.integers(2, 61))
    if rep == "contiguous":
        nkeys = gen.pick(rng, [1, 1, 2, 3])
    else:
        nkeys = 1
    kinds = ["int", "float", "str", "dt", "bool", "cat"] if rep == "contiguous" else ["int", "float", "str", "dt"]
    keys = [gen.gen_key(rng, n, kind=gen.pick(rng, kinds), name=gen.pick(rng, [None, f"k{i}"])) for i in range(nkeys)]
    lk = common.lkeys_ns(keys)
    case = {"n": n, "keys": keys, "sort": bool(rng.random() < 0.8), "rep": rep, "index": None, "mask": None, "val": None, "noshrink": True}
    if rep == "chunked":
        case["strategy"] = {"chunk_threshold": int(gen.pick(rng, [2, 2, 4])), "key_chunks": int(rng.integers(2, 6))}
    elif rep == "arrow_chunked":
        case["kc"] = ["pa_chunked"]
        case["ksplits"] = gen.random_splits(rng, n, 5) or [1]
    L = int(rng.integers(2, 11))
    steps = []
    for j in range(L):
        r = rng.random()
        if j >= 1 and r < 0.08:
            steps.append({"op": "copy", "kind": "copy"})
        elif j >= 1 and r < 0.2 and any(s.get("kind") is None for s in steps):
            cand = [i for i, s in enumerate(steps) if s.get("kind") is None]
            steps.append({"op": steps[cand[0]]["op"], "kind": "repeat", "of": int(gen.pick(rng, cand))})
        else:
            steps.append(gen_step(rng, n, lk, dtypes))
    if rng.random() < 0.35:
        # a caller sweeping one mask per group over the same grouping (each mask leaves the other groups without any selected row)
        labels = sorted({k for k in lk if k is not None}, key=repr)
        if len(labels) >= 2:
            op = gen.pick(rng, ["sum", "mean", "min", "max", "count", "first", "last", "var"])
            ok = [d for d in dtypes if ops.accepts(op, d)] or ["float64"]
            dtype = gen.pick(rng, ok)
            at = int(rng.integers(0, len(steps) + 1))
            sweep = []
            for g in [labels[int(i)] for i in rng.permutation(len(labels))[:3]]:
                val = gen.gen_vals(rng, n, dtype, magnitude="small" if np.dtype(dtype).kind in "iu" else None)
                sweep.append({"op": op, "val": val, "params": ops.gen_params(rng, op, n), "mask": {"kind": "bool", "vals": [k == g for k in lk]}})
            steps[at:at] = sweep
            for st_ in steps:  # 'repeat' steps refer to positions
                if st_.get("kind") == "repeat" and st_["of"] >= at:
                    st_["of"] += len(sweep)
            case["mask_sweep"] = True
    case["shared_buffers"] = bool(rng.random() < 0.6)
    case["steps"] = steps
    return case


def run(ctx):
    if not install_invariant():
        ctx.counters["icontract_missing"] = 1
    dtypes = common.ALL_DTYPE_SHARDS[ctx.shard % len(common.ALL_DTYPE_SHARDS)]
    rng = gen.rng_for(ctx.seed, "C13", ctx.shard, 1 if ctx.mode != "prod" else 0)
    nh = N_HIST[ctx.tier] if ctx.mode == "prod" else max(20, N_HIST[ctx.tier] // 2)
    for i in range(nh):
        rep = ["contiguous", "chunked", "chunked", "arrow_chunked"][i % 4]
        ctx.run_case(gen_case(rng, dtypes, rep), check, features, nontrivial)


def evidence_extra(agg):
    tr = {k[11:]: v for k, v in agg["counters"].items() if k.startswith("transition|")}
    states = {k[6:]: v for k, v in agg["counters"].items() if k.startswith("state:")}
    return {"evaluations": int(agg["counters"].get("steps_compared", 0)), "histories": agg["n_eval"], "states": len(states), "transitions": len(tr), "state_visits": states, "transition_counts": dict(sorted(tr.items(), key=lambda kv: -kv[1])[:300])}
