"""C10 - EMA is the normalised exponentially weighted mean, per group (closed-form oracle + relations)."""
import math

import numpy as np
import pandas as pd

from .. import cmp, gen, lib, model, ops
from . import common

LEVEL = "exploration"
RULE = ("seeded random datasets (group interleavings, leading nulls, null keys, boolean masks) x alpha in (0,1] incl. 1 and "
        "0.001, real halflives (0.3, 2.5, pi, 7), time-weighted EMA with irregular / repeated / pre-1970 timestamps in "
        "ns/us/ms/s and string or Timedelta halflives x float32/64 and int32/64 x GroupBy.ema (both layouts), ema_grouped "
        "and ungrouped ema. Each case: O(n^2) closed form at every row; halflife vs alpha; per-group vs ungrouped ema; a "
        "second interleaving of the same groups. distinct = case digests; non-trivial = some group has >= 3 rows of which "
        ">= 2 valid")
ASSUMPTIONS = [
    "'group rows elapsed' counts every row of the group between two observations, valid or not (as the suite and pandas ewm do)",
    "values compared to 1e-9 relative (of max|x|), relations between two library runs to 1e-12 relative",
    "timestamps are non-decreasing within a group; the ungrouped ema has no mask, masked rows are presented to it as NaN",
    "before a group's first valid observation the grouped output must be null; the ungrouped output there is not constrained",
]
N_CASES = {"quick": 700, "thorough": 18000}
DT = [["float64"], ["float32"], ["int64"], ["int32"], ["float64", "int64"], ["float64", "float32"], ["float64"], ["int32", "float64"]]
HL_STR = {"1s": 1e9, "2500ms": 2.5e9, "1h": 3600e9, "90s": 90e9, "250us": 250e3, "2us": 2e3, "3us": 3e3}


def plan(tier):
    p = [dict(shard=i, nshards=8, mode="prod") for i in range(8)]
    p.append(dict(shard=0, nshards=8, mode="bounds"))
    if tier == "thorough":
        p += [dict(shard=i, nshards=8, mode="bounds") for i in range(1, 8)]
    return p


def required_counters(tier):
    return ["timed", "fractional_halflife", "leading_null", "masked", "alpha_one", "by_groups", "ungrouped_compared",
            "interleaving_compared", "ema_grouped_direct", "times_not_ns", "times_pre1970", "tick_times"]


def features(case):
    p = case["params"]
    f = [f"dt={case['val']['dtype']}|{'timed' if case.get('times') else ('alpha' if 'alpha' in p else 'halflife')}"]
    if case.get("times"):
        f.append("timed")
        if case["times"]["unit"] != "ns":
            f.append("times_not_ns")
        if case["times"]["vals"] and case["times"]["vals"][0] <= 0:
            f.append("times_pre1970")
        if case["times"].get("fine"):
            f.append("tick_times")
    if "halflife" in p and not case.get("times") and float(p["halflife"]) != int(p["halflife"]):
        f.append("fractional_halflife")
    if p.get("alpha") == 1.0:
        f.append("alpha_one")
    if case["mask"] is not None:
        f.append("masked")
    if case.get("by_groups"):
        f.append("by_groups")
    lk = common.lkeys_ns(case["keys"])
    seen = set()
    for k, v in zip(lk, case["val"]["vals"]):
        if k is not None and k not in seen:
            seen.add(k)
            if v is None:
                f.append("leading_null")
                break
    return f


def nontrivial(case):
    lk = common.lkeys_ns(case["keys"])
    vals = case["val"]["vals"]
    for rows in model.group_rows(lk).values():
        if len(rows) >= 3 and sum(vals[i] is not None for i in rows) >= 2:
            return True
    return False


def _hl_ns(h):
    if isinstance(h, str):
        return HL_STR[h]
    return float(h)


def _expected(case):
    n = case["n"]
    lk = common.lkeys_ns(case["keys"])
    vals = case["val"]["vals"]
    mb = gen.mask_as_bool(case["mask"], n) if case["mask"] is not None else None
    p = case["params"]
    if case.get("times"):
        t = case["times"]
        m = gen.UNIT_NS[t["unit"]]
        times = [v * m for v in t["vals"]]
        return lk, vals, mb, model.ema(lk, vals, mb, times=times, halflife=_hl_ns(p["halflife"]))
    alpha = p["alpha"] if "alpha" in p else 1.0 - 2.0 ** (-1.0 / float(p["halflife"]))
    return lk, vals, mb, model.ema(lk, vals, mb, alpha=alpha)


def _lib_params(p, timed):
    if "alpha" in p:
        return {"alpha": p["alpha"]}
    h = p["halflife"]
    if timed and p.get("hl_as_timedelta"):
        h = pd.Timedelta(h)
    return {"halflife": h}


def _run(case, params=None, **over):
    c = dict(case)
    c["op"] = "ema"
    c["params"] = params or _lib_params(case["params"], bool(case.get("times")))
    return ops.execute(c, **over)


def check(case, ctx):
    fails = []
    n = case["n"]
    dtype = case["val"]["dtype"]
    p = case["params"]
    timed = bool(case.get("times"))
    sig = f"{'timed' if timed else ('alpha' if 'alpha' in p else 'halflife')}|{np.dtype(dtype).kind}"
    lk, vals, mb, ref = _expected(case)
    r = _run(case)
    if r.raised is not None:
        return [{"monitor": "c10.raised", "sig": f"{sig}|{type(r.raised.exc).__name__}", "detail": f"ema({p}) raised {r.raised!r}"}]
    if isinstance(r.vals, dict) or len(r.vals) != n:
        return [{"monitor": "c10.shape", "sig": sig, "detail": "result shape wrong"}]
    scale = max([abs(float(v)) for v in vals if v is not None] + [1e-300])
    tol = 1e-9 * scale
    for i in range(n):
        e = ref[i]
        if isinstance(e, str):
            continue
        g = r.vals[i]
        ok = cmp.is_null(g) if e is None else (not cmp.is_null(g) and abs(g - e) <= tol)
        if not ok:
            valid = vals[i] is not None and (mb is None or mb[i])
            fails.append({"monitor": "c10.value", "sig": sig + ("|valid_row" if valid else "|invalid_row"),
                          "detail": f"ema({p}{', times' if timed else ''}) dtype={dtype} row {i} key {lk[i]!r}: library={g!r} closed form={e!r}"})
            break
    if fails:
        return fails
    # ---- halflife h == alpha = 1 - 2^(-1/h)
    if "halflife" in p and not timed:
        a = 1.0 - 2.0 ** (-1.0 / float(p["halflife"]))
        r2 = _run(case, params={"alpha": a})
        d = None if r2.raised is not None else ops.diff_rows(r.vals, r2.vals, 1e-12 * scale, what=f"halflife={p['halflife']} vs alpha={a!r}")
        if r2.raised is not None or d:
            fails.append({"monitor": "c10.halflife", "sig": sig, "detail": d or f"alpha form raised {r2.raised!r}"})
    # ---- grouped single group == ungrouped, from the first valid observation on
    from groupby_lib import ema as ema_fn

    groups = model.group_rows(lk)
    arr = gen.val_np(case["val"])
    for k, rows in list(groups.items())[:3]:
        x = arr[rows].astype("float64") if mb is not None or arr.dtype.kind == "f" else arr[rows]
        if mb is not None:
            x = x.copy()
            x[[not mb[i] for i in rows]] = np.nan
        first = next((j for j, i in enumerate(rows) if vals[i] is not None and (mb is None or mb[i])), None)
        if first is None:
            continue
        kw = _lib_params(p, timed)
        if timed:
            t = np.array(case["times"]["vals"], dtype="int64").view(f"datetime64[{case['times']['unit']}]")[rows]
            u = lib.call(ema_fn, x, times=t, **kw)
        else:
            u = lib.call(ema_fn, x, **kw)
        ctx.count("ungrouped_compared")
        if lib.raised(u):
            fails.append({"monitor": "c10.ungrouped", "sig": sig + "|raised", "detail": f"ungrouped ema raised {u!r}"})
            break
        u = cmp.col_py(np.asarray(u))
        d = ops.diff_rows([r.vals[i] for i in rows[first:]], u[first:], 1e-9 * scale, what=f"group {k!r}: grouped vs ungrouped ema (from first valid row {first})")
        if d:
            fails.append({"monitor": "c10.ungrouped", "sig": sig + (f"|leading_invalid" if first > 0 else ""), "detail": d})
            break
    # ---- another interleaving of the same groups
    perm = case.get("perm")
    if perm and not fails:
        c2 = common.with_rows(case, perm)
        if case["mask"] is not None:
            c2["mask"] = dict(case["mask"], vals=[case["mask"]["vals"][i] for i in perm])
        r3 = _run(c2)
        ctx.count("interleaving_compared")
        if r3.raised is not None:
            fails.append({"monitor": "c10.interleave", "sig": sig + "|raised", "detail": f"raised on another interleaving: {r3.raised!r}"})
        else:
            back = [r3.vals[perm.index(i)] if False else None for i in []]
            inv = {src: pos for pos, src in enumerate(perm)}
            a = [r.vals[i] for i in range(n) if lk[i] is not None]
            b = [r3.vals[inv[i]] for i in range(n) if lk[i] is not None]
            d = ops.diff_rows(a, b, 1e-12 * scale, what="same groups, different interleaving")
            if d:
                fails.append({"monitor": "c10.interleave", "sig": sig, "detail": d})
    # ---- group-sorted layout
    if case.get("by_groups") and not fails:
        c2 = dict(case, extra={"index_by_groups": True})
        r4 = _run(c2)
        if r4.raised is not None:
            fails.append({"monitor": "c10.raised", "sig": sig + "|by_groups", "detail": f"ema(index_by_groups=True) raised {r4.raised!r}"})
        else:
            idx = case["index"]["vals"] if case.get("index") is not None and case.get("vc") == "pd" else list(range(n))
            want = {}
            for i in range(n):
                if lk[i] is not None:
                    want.setdefault(tuple(lk[i]) + (idx[i],), []).append(r.vals[i])
            got = {}
            for gi, v in zip(r4.index, r4.vals):
                got.setdefault(tuple(gi) if isinstance(gi, tuple) else (gi,), []).append(v)
            if set(got) != set(want):
                fails.append({"monitor": "c10.by_groups", "sig": sig, "detail": f"group-sorted index labels differ: only-lib={sorted(set(got)-set(want), key=repr)[:3]} only-expected={sorted(set(want)-set(got), key=repr)[:3]}"})
            else:
                for key_, lst in want.items():
                    d = ops.diff_rows(lst, got[key_], 1e-12 * scale, what=f"group-sorted vs flat at {key_!r}")
                    if d:
                        fails.append({"monitor": "c10.by_groups", "sig": sig, "detail": d})
                        break
    # ---- ema_grouped with explicit codes
    if case.get("direct") and not fails:
        from groupby_lib import ema_grouped

        labels = gen.sort_labels(common.keyspecs_ns(case["keys"]), list(groups))
        code = {k: j for j, k in enumerate(labels)}
        codes = np.array([code[k] if k is not None else -1 for k in lk], dtype=gen.pick(np.random.default_rng(case.get("pseed", 0)), ["int64", "int32", "int16", "int8"]))
        kw = _lib_params(p, timed)
        if timed:
            kw["times"] = np.array(case["times"]["vals"], dtype="int64").view(f"datetime64[{case['times']['unit']}]")
        m = None if mb is None else np.array(mb)
        u = lib.call(ema_grouped, codes, len(labels), arr, mask=m, **kw)
        ctx.count("ema_grouped_direct")
        if lib.raised(u):
            fails.append({"monitor": "c10.direct", "sig": sig + "|raised", "detail": f"ema_grouped raised {u!r}"})
        else:
            d = ops.diff_rows([r.vals[i] for i in range(n) if lk[i] is not None], [v for i, v in enumerate(cmp.col_py(np.asarray(u))) if lk[i] is not None],
                              1e-12 * scale, what="GroupBy.ema vs ema_grouped on explicit codes")
            if d:
                fails.append({"monitor": "c10.direct", "sig": sig, "detail": d})
    return fails


def gen_case(rng, dtypes):
    n = int(rng.integers(1, 41))
    nkeys = gen.pick(rng, [1, 1, 1, 2])
    keys = [gen.gen_key(rng, n, nlabels=int(rng.integers(1, 5)), name=None) for i in range(nkeys)]
    dtype = gen.pick(rng, dtypes)
    val = gen.gen_vals(rng, n, dtype, magnitude=gen.pick(rng, ["small", "small", "frac", "offset"]) if dtype.startswith("float") else "small")
    lk = common.lkeys_ns(keys)
    if rng.random() < 0.3 and dtype.startswith("float"):
        # leading nulls in one group
        g = model.group_rows(lk)
        if g:
            rows = list(g.values())[int(rng.integers(len(g)))]
            for i in rows[: int(rng.integers(1, 3))]:
                val["vals"][i] = None
    mask = gen.gen_mask(rng, n, kind=gen.pick(rng, ["none", "none", "bool", "bool_series"]), lkeys=lk)
    r = rng.random()
    case = {"n": n, "keys": keys, "val": val, "mask": mask, "op": "ema", "sort": bool(rng.random() < 0.8), "vc": gen.pick(rng, ["np", "pd"]), "index": None}
    if r < 0.4:
        case["params"] = {"alpha": gen.pick(rng, [0.5, 0.1, 0.9, 1.0, 0.001, float(np.round(rng.uniform(0.01, 1), 3))])}
    elif r < 0.7:
        case["params"] = {"halflife": gen.pick(rng, [1.0, 2.5, 0.3, 3.14159, 7.0, 2.0])}
    else:
        unit = gen.pick(rng, ["ns", "ns", "us", "ms", "s"])
        start = gen.pick(rng, [1_600_000_000, 1_600_000_000, 0, -86_400 * 365])
        fine = bool(rng.random() < 0.35) and unit in ("ns", "us")
        case["times"] = common.gen_times(rng, n, unit=unit, start=start, fine=fine)
        case["params"] = {"halflife": gen.pick(rng, ["250us", "250us", "1s"] if fine and unit == "us" else (["2us", "3us", "250us"] if fine else ["1s", "2500ms", "1h", "90s"])),
                          "hl_as_timedelta": bool(rng.random() < 0.3)}
    if case["vc"] == "pd" and rng.random() < 0.5:
        case["index"] = gen.gen_index(rng, n)
    if rng.random() < 0.2:
        case["by_groups"] = True
        if case["index"] is not None:
            case["index"] = {"kind": "int", "vals": [int(x) for x in rng.permutation(n) + 10]}
        if mask is not None and mask["kind"] == "bool_series" and not (case["vc"] == "pd" and case["index"] is not None):
            mask["kind"] = "bool"
        if case.get("times") and case["vc"] == "pd" and case["index"] is not None and rng.random() < 0.6:
            case["times"]["container"] = "pd"  # re-ordered by position, never looked up by label
            case["series_inputs_by_groups"] = True
    if rng.random() < 0.5 and not case.get("times"):
        # another interleaving: stable merge of the per-group row lists in a different order
        rows_by = {}
        for i, k in enumerate(lk):
            rows_by.setdefault(k if k is not None else ("__null__", i), []).append(i)
        lists = [list(v) for v in rows_by.values()]
        perm = []
        while any(lists):
            j = int(rng.integers(len(lists)))
            if lists[j]:
                perm.append(lists[j].pop(0))
        case["perm"] = perm
    case["direct"] = bool(rng.random() < 0.3)
    common.add_route(rng, case, 0.2)
    case["pseed"] = int(rng.integers(1 << 30))
    if mask is not None and mask["kind"] == "bool_series" and case["vc"] != "pd":
        mask["kind"] = "bool"
    return case


def run(ctx):
    err = model.selfcheck() if ctx.shard == 0 else None
    if err:
        raise RuntimeError(err)
    dtypes = DT[ctx.shard % len(DT)]
    rng = gen.rng_for(ctx.seed, "C10", ctx.shard, 1 if ctx.mode != "prod" else 0)
    ncases = N_CASES[ctx.tier] if ctx.mode == "prod" else max(50, N_CASES[ctx.tier] // 3)
    for _ in range(ncases):
        ctx.run_case(gen_case(rng, dtypes), check, features, nontrivial, common.shrink)
