"""C19 - operations never modify their inputs and results do not alias them (snapshots + mutate-and-repeat)."""
import copy

import numpy as np
import pandas as pd

from .. import cmp, gen, lib, model, ops
from . import common

LEVEL = "exploration"
RULE = ("seeded random calls over every operation family (reductions, transform, var/std/median/quantile, cumulative, rolling, "
        "shift/diff, EMA plain+timed, head/tail/nth, groups) with keys and values poured into numpy (incl. non-contiguous "
        "views and integer views of timestamps), pandas (numpy- and Arrow-backed, tz-aware), polars and pyarrow (plain and "
        "chunked). Around every call SHA-1 digests of all key/value/mask/times buffers are compared; then every writable "
        "handle of the returned result (numpy buffers behind pandas results, numpy results, arrays inside the groups "
        "mapping) is overwritten in place and (a) the input digests are re-checked, (b) the identical call is repeated on the "
        "same grouping and must return the original result, (c) labels and sizes of the grouping must be unchanged. "
        "Additionally every call of every other check (C01-C18) passes through the same snapshot wrapper. distinct = case "
        "digests; non-trivial = the result had at least one writable buffer or shares memory with an input")
ASSUMPTIONS = [
    "only handles that are writable as returned are written to (no flag manipulation)",
    "the grouping's codes may change representation (chunk-local to global); labels and per-label sizes are compared",
]
OPS = ops.RED + ["var", "std", "median", "quantile"] + ops.CUM + ops.ROLL + ops.SHIFT + ["ema", "ema"] + ops.SEL + ["groups", "groups"]
ops.KIND.setdefault("groups", "groups")
N_CASES = {"quick": 450, "thorough": 4000}
VC = ["np", "np_view", "pd", "pd", "pl", "pa", "pa_chunked", "pd_arrow", "np"]
KC = ["np", "np_view", "pd", "pl", "pa", "pa_chunked", "pd_arrow", "np", "pd_index"]


def plan(tier):
    return common.std_plan(tier)


def required_counters(tier):
    return ["writable_result_buffers", "results_mutated", "repeat_calls_compared", "view_inputs", "arrow_inputs", "groups_mutated", "shares_memory_checks", "collection_inputs", "result_names_mutated"]


def features(case):
    f = [f"op={case['op']}|vc={case.get('vc')}|kc={'+'.join(case.get('kc') or [])}"]
    return f


def nontrivial(case):
    return True


def _writable_arrays(res):
    """numpy arrays reachable from a result that are writable as returned."""
    out = []

    def add(a):
        if isinstance(a, np.ndarray) and a.flags.writeable and a.size:
            out.append(a)

    if isinstance(res, np.ndarray):
        add(res)
    elif isinstance(res, pd.Series):
        try:
            add(res.to_numpy(copy=False))
        except Exception:
            pass
        try:
            add(np.asarray(res.index.to_numpy(copy=False)) if not isinstance(res.index, (pd.MultiIndex, pd.RangeIndex)) else None)
        except Exception:
            pass
    elif isinstance(res, pd.DataFrame):
        for c in res.columns:
            try:
                add(res[c].to_numpy(copy=False))
            except Exception:
                pass
        try:
            add(np.asarray(res.index.to_numpy(copy=False)) if not isinstance(res.index, (pd.MultiIndex, pd.RangeIndex)) else None)
        except Exception:
            pass
    elif isinstance(res, dict):
        for v in res.values():
            add(v if isinstance(v, np.ndarray) else None)
    elif type(res).__module__.startswith("polars"):
        try:
            a = res.to_numpy() if hasattr(res, "to_numpy") else None
            if isinstance(a, np.ndarray):
                add(a)
        except Exception:
            pass
    return out


def _scribble(arrs):
    n = 0
    for a in arrs:
        try:
            if a.dtype.kind == "b":
                a[...] = ~a
            elif a.dtype.kind in "iuf":
                a[...] = a * 0 + 77
            elif a.dtype.kind in "mM":
                a[...] = a.view("int64").dtype.type(12345).astype("int64").view(a.dtype) if False else np.array(12345, dtype="int64").view(a.dtype)
            elif a.dtype == object:
                a[...] = "zzz"
            n += 1
        except (ValueError, TypeError):
            pass
    return n


def _np_inputs(objs):
    out = []
    for o in objs:
        if isinstance(o, np.ndarray):
            out.append(o)
        elif isinstance(o, pd.Series):
            try:
                out.append(o.to_numpy(copy=False))
            except Exception:
                pass
        elif isinstance(o, (list, tuple)):
            out += _np_inputs(o)
    return [a for a in out if isinstance(a, np.ndarray) and a.dtype != object]


def _build(case):
    """inputs with 'np_view' support: a non-contiguous view of a larger buffer."""
    kcs = case.get("kc") or ["np"] * len(case["keys"])
    idx = gen.index_obj(case.get("index"))
    keys = []
    for k, c in zip(case["keys"], kcs):
        if c == "np_view":
            base = gen.key_array(k, "np")
            if isinstance(base, np.ndarray) and base.dtype != object:
                big = np.repeat(base, 2)
                keys.append(big[::2])
            else:
                keys.append(base)
        else:
            keys.append(gen.key_array(k, c, index=idx, splits=case.get("ksplits")))
    keys_obj = keys[0] if len(keys) == 1 else keys
    if case.get("keys_as_dict"):
        # keys under other names than the objects carry: the objects themselves must keep theirs
        keys_obj = {f"renamed{i}": k for i, k in enumerate(keys)}
    vc = case.get("vc", "np")
    if vc == "np_view":
        base = gen.val_np(case["val"])
        big = np.repeat(base, 2)
        val = big[::2]
    else:
        val = gen.val_array(case["val"], vc, index=idx, splits=case.get("vsplits"))
    mask = gen.mask_obj(case.get("mask"), index=idx)
    times = ops.times_obj(case["times"], idx) if case.get("times") is not None else None
    # value collections: the caller's list / dict itself is an input too (its elements must stay what they were)
    coll = case.get("collection")
    if coll == "list1":
        val = [val]
    elif coll == "list2":
        val = [val, val]
    elif coll == "dict":
        val = {"a": val, "b": val}
    return keys_obj, val, mask, times


def _call(gb, case, val, mask, times):
    op = case["op"]
    if op == "groups":
        return lib.call(lambda: gb.groups)
    return ops.call_op(gb, op, case.get("params"), val, mask, times=times)


def check(case, ctx):
    fails = []
    op = case["op"]
    keys_obj, val, mask, times = _build(case)
    if any(c == "np_view" for c in (case.get("kc") or [])) or case.get("vc") == "np_view":
        ctx.count("view_inputs")
    if case.get("vc") in gen.ARROW_FAMILY or any(c in gen.ARROW_FAMILY for c in (case.get("kc") or [])):
        ctx.count("arrow_inputs")
    inputs = [keys_obj, val, mask, times]
    if case.get("collection"):
        ctx.count("collection_inputs")
    lib.STATE["watch"] = inputs
    try:
        snap0 = cmp.snapshot(inputs)[0]
        gb = ops.make_gb(keys_obj, sort=case.get("sort", True))
        if lib.raised(gb):
            return []  # whether a container is accepted is C12's subject
        r1 = _call(gb, case, val, mask, times)
        if lib.raised(r1):
            return []
        kind = ops.KIND.get(op, "red")
        n1 = ops.normalise(copy.deepcopy(r1), kind) if op != "groups" else None
        g1 = {k: np.array(v).tolist() for k, v in r1.items()} if op == "groups" else None
        labels0 = cmp.labels_of(gb.result_index)
        sizes0 = cmp.col_py(gb.size())
        # ---- aliasing evidence
        res_arrays = _writable_arrays(r1)
        ctx.count("shares_memory_checks")
        shared = any(np.shares_memory(a, b) for a in res_arrays for b in _np_inputs(inputs))
        if shared:
            ctx.count("result_shares_memory_with_input")
        if res_arrays:
            ctx.count("writable_result_buffers", len(res_arrays))
        # ---- scribble over the result
        if _scribble(res_arrays):
            ctx.count("results_mutated")
            if op == "groups":
                ctx.count("groups_mutated")
        # ... and over its labelling: index / column names are settable in place on a returned pandas object
        names1 = names_g0 = None
        # (reductions only: their labels belong to the grouping.  A row-aligned result carries the caller's own index object, as
        # every pandas operation does, so renaming it there is renaming the caller's index - not something the library did)
        if isinstance(r1, (pd.Series, pd.DataFrame)) and op != "groups" and kind == "red":
            names1 = [list(r1.index.names), list(r1.columns.names) if isinstance(r1, pd.DataFrame) else None]
            names_g0 = list(gb.result_index.names)
            try:
                r1.index.names = [f"scribbled{i}" for i in range(r1.index.nlevels)]
                if isinstance(r1, pd.DataFrame):
                    r1.columns.names = [f"scribbled_col{i}" for i in range(r1.columns.nlevels)]
                ctx.count("result_names_mutated")
            except Exception:
                names1 = None
        snap1 = cmp.snapshot(inputs)[0]
        if snap1 != snap0:
            fails.append({"monitor": "c19.alias", "sig": f"{op}|input_changed", "detail": f"{op}: overwriting the returned result changed an input buffer (containers keys={case.get('kc')}, values={case.get('vc')})"})
            return fails
        # ---- same call again on the same grouping
        r2 = _call(gb, case, val, mask, times)
        ctx.count("repeat_calls_compared")
        if lib.raised(r2):
            fails.append({"monitor": "c19.repeat", "sig": f"{op}|raised", "detail": f"{op}: the identical call raised after the first result was overwritten: {r2!r}"})
        elif op == "groups":
            g2 = {k: np.array(v).tolist() for k, v in r2.items()}
            if g2 != g1:
                fails.append({"monitor": "c19.repeat", "sig": "groups", "detail": f"groups changed after the returned arrays were overwritten: {list(g1.items())[:3]} -> {list(g2.items())[:3]}"})
        else:
            n2 = ops.normalise(r2, kind)
            if kind == "red":
                d = ops.diff_red(n1, n2, 0.0, what=f"{op}: first call vs identical call after overwriting the first result")
            elif kind == "row":
                d = ops.diff_rows(n1.vals, n2.vals, 0.0, what=f"{op}: first call vs identical call after overwriting the first result") if not isinstance(n1.vals, dict) else None
            else:
                d = None if (n1.index, n1.vals) == (n2.index, n2.vals) or str((n1.index, n1.vals)) == str((n2.index, n2.vals)) else f"{op}: selection changed"
            if d:
                fails.append({"monitor": "c19.repeat", "sig": op, "detail": d})
            if names1 is not None and isinstance(r2, (pd.Series, pd.DataFrame)):
                names2 = [list(r2.index.names), list(r2.columns.names) if isinstance(r2, pd.DataFrame) else None]
                if names2 != names1:
                    fails.append({"monitor": "c19.repeat", "sig": f"{op}|names", "detail": f"{op}: index/column names of the identical call are {names2} after the first result was renamed in place (first call: {names1})"})
        # ---- the grouping itself
        if names_g0 is not None and list(gb.result_index.names) != names_g0:
            fails.append({"monitor": "c19.grouping", "sig": f"{op}|names", "detail": f"{op}: renaming the returned result's index in place renamed the grouping's labels: {names_g0} -> {list(gb.result_index.names)}"})
        if cmp.labels_of(gb.result_index) != labels0 or cmp.col_py(gb.size()) != sizes0:
            fails.append({"monitor": "c19.grouping", "sig": op, "detail": f"{op}: labels or sizes of the grouping changed"})
        # a dependent operation after scribbling over groups (uses the same cached indexer)
        if op == "groups" and not fails and np.dtype(case["val"]["dtype"]).kind in "fiu":
            med = lib.call(gb.median, val, mask=None) if mask is None else None
            fresh = ops.make_gb(keys_obj, sort=case.get("sort", True))
            med2 = lib.call(fresh.median, val) if mask is None and not lib.raised(fresh) else None
            if med is not None and med2 is not None and not lib.raised(med) and not lib.raised(med2):
                d = ops.diff_red(ops.normalise(med, "red"), ops.normalise(med2, "red"), 0.0, what="median after overwriting the arrays returned by groups vs fresh grouping")
                if d:
                    fails.append({"monitor": "c19.repeat", "sig": "groups->median", "detail": d})
    finally:
        lib.STATE["watch"] = []
    return fails


def gen_case(rng, dtypes):
    pool = [o for o in OPS if o != "groups"]
    case = common.gen_opcase(rng, pool, dtypes, mask_kinds=None, index_p=0.3, nkeys_pool=(1, 1, 1, 2))  # incl. position / slice masks
    n = case["n"]
    if rng.random() < 0.12:
        case["op"] = "groups"
        case["params"] = {}
        case["mask"] = None
    dtk = np.dtype(case["val"]["dtype"]).kind
    vc = gen.pick(rng, VC)
    has_null = any(v is None for v in case["val"]["vals"])
    if vc in gen.ARROW_FAMILY and (dtk == "b" or case["val"].get("tz")):
        vc = "pd"
    if case["val"].get("tz") and vc == "np_view":
        vc = "pd"
    if case["op"] in ("ema",) and vc in ("pa", "pa_chunked"):
        vc = "np"
    case["vc"] = vc
    kc = []
    for k in case["keys"]:
        c = gen.pick(rng, KC)
        if k["kind"] == "cat" and c not in ("np", "pd"):
            c = "np"
        kc.append(c)
    case["kc"] = kc
    if case["op"] != "groups" and vc in ("np", "pd", "np_view", "pd_arrow") and rng.random() < 0.3:
        case["collection"] = gen.pick(rng, ["list1", "list2", "dict"])
    case["ksplits"] = gen.random_splits(rng, n, 4)
    case["vsplits"] = gen.random_splits(rng, n, 4)
    if rng.random() < 0.15:
        case["keys_as_dict"] = True
        if rng.random() < 0.4 and len(case["keys"]) == 1 and n > 1:
            step = int(gen.pick(rng, [1, 2, -1]))
            case["keys"] = [{"kind": "range", "start": 3, "stop": 3 + step * n, "step": step, "vals": list(range(3, 3 + step * n, step)), "name": "orig"}]
            case["kc"] = ["pd_index"]
    if vc != "pd" or any(c not in ("pd", "np", "np_view") for c in kc):
        case["index"] = None
    if case["mask"] is not None and case["mask"]["kind"] == "bool_series" and vc != "pd":
        case["mask"]["kind"] = "bool"
    return case


def run(ctx):
    dtypes = common.ALL_DTYPE_SHARDS[ctx.shard % len(common.ALL_DTYPE_SHARDS)]
    rng = gen.rng_for(ctx.seed, "C19", ctx.shard, 1 if ctx.mode != "prod" else 0)
    ncases = N_CASES[ctx.tier] if ctx.mode == "prod" else max(50, N_CASES[ctx.tier] // 3)
    for _ in range(ncases):
        ctx.run_case(gen_case(rng, dtypes), check, features, nontrivial)
