"""C07 - transform=True broadcasts exactly the per-group result (relational monitor via logical keys)."""
import numpy as np

from .. import cmp, gen, lib, model, ops
from . import common

LEVEL = "exploration"
RULE = ("seeded random datasets x every reduction supporting transform (size,count,sum,mean,min,max,first,last,var,std,"
        "median, apply with a scalar function) x masks x key representation (contiguous, chunked through a scaled "
        "threshold) x container (numpy, pandas with non-default/duplicate index, polars). The transform result is "
        "compared row by row with the per-group result of the same call looked up through the *logical* key of the row. "
        "distinct = case digests; non-trivial = at least two groups and at least 3 rows")
ASSUMPTIONS = [
    "rows with a null key or an unobserved group must carry null, or 0 for sum/count/size, or the library's documented "
    "integer null (dtype min / unsigned max / False) when the result dtype has no NaN",
    "values compared within the C01 rounding bound (both sides come from the library)",
]
OPS = ops.TRANSFORMABLE + ["apply"]
N_CASES = {"quick": 900, "thorough": 8000}
ops.KIND.setdefault("apply", "red")
FUNCS = {"np.max": np.max, "np.sum": np.sum, "len": len, "np.mean": np.mean}


def plan(tier):
    return common.std_plan(tier)


def required_counters(tier):
    return ["chunked_keys", "polars_in_polars_out", "nondefault_index", "unobserved_group_rows", "null_key_rows", "unsorted_first_appearance", "multi_column_transforms"]


def features(case):
    f = common.std_features(case)
    lk = common.lkeys_ns(case["keys"])
    if any(k is None for k in lk):
        f.append("null_key_rows")
    if case.get("index") is not None:
        f.append("nondefault_index")
    sel = gen.mask_selection(case["mask"], case["n"])
    if len(model.group_rows(lk, sel)) < len(model.group_rows(lk)):
        f.append("unobserved_group_rows")
    first = list(model.group_rows(lk))
    if first != gen.sort_labels(common.keyspecs_ns(case["keys"]), first):
        f.append("unsorted_first_appearance")
    return f


def nontrivial(case):
    lk = common.lkeys_ns(case["keys"])
    return len({k for k in lk if k is not None}) >= 2 and case["n"] >= 3


def _call(case, transform):
    op = case["op"]
    if op != "apply":
        return ops.execute(case, transform=transform)
    keys_obj, val, mask, idx = ops.build_inputs(case)
    gb = ops.make_gb(keys_obj, sort=case.get("sort", True))
    if lib.raised(gb):
        r = ops.Res(); r.raised = gb; return r
    kw = {"transform": True} if transform else {}
    raw = lib.call(gb.apply, val, FUNCS[case["params"]["func"]], mask=mask, **kw)
    return ops.normalise(raw, "row" if transform else "red")


def check(case, ctx):
    fails = []
    n, op = case["n"], case["op"]
    dk = np.dtype(case["val"]["dtype"]).kind
    st = case.get("strategy")
    if st:
        lib.set_strategy(**st)
    try:
        keys_obj, _, _, _ = ops.build_inputs(case)
        gbp = ops.make_gb(keys_obj, sort=case.get("sort", True))
        if not lib.raised(gbp) and getattr(gbp, "key_is_chunked", False):
            ctx.count("chunked_keys")
        r = _call(case, False)
        t = _call(case, True)
    finally:
        if st:
            lib.reset_strategy()
    sig = f"{op}|{dk}" + ("|chunked" if st else "")
    if r.raised is not None or t.raised is not None:
        if (r.raised is None) != (t.raised is None) or r.raised is not None:
            x = t.raised if t.raised is not None else r.raised
            fails.append({"monitor": "c07.raised", "sig": f"{sig}|{type(x.exc).__name__}", "op": "apply" if op == "apply" else op,
                          "detail": f"{op}: plain={r!r:.300} transform={t!r:.300}"})
        return fails
    if isinstance(t.vals, dict):
        return [{"monitor": "c07.shape", "sig": sig, "detail": "single 1-D input gave a frame"}]
    if len(t.vals) != n:
        return [{"monitor": "c07.shape", "sig": sig, "detail": f"{op}: transform result has {len(t.vals)} rows for {n} input rows"}]
    # container follows the input
    vc = case.get("vc", "np") if op != "size" else "np"  # size takes no values: nothing to follow
    if vc == "pl":
        if t.container != "pl":
            fails.append({"monitor": "c07.container", "sig": sig, "detail": f"polars input gave {t.container} output"})
        else:
            ctx.count("polars_in_polars_out")
    elif vc == "pd" and t.container != "pd":
        fails.append({"monitor": "c07.container", "sig": sig, "detail": f"pandas input gave {t.container} output"})
    if t.container == "pd":
        want = case["index"]["vals"] if case.get("index") is not None and vc == "pd" else list(range(n))
        if op == "size":
            kcs = case.get("kc") or ["np"]
            has_pd = any(c.startswith("pd") for c in kcs) or (case["mask"] is not None and case["mask"]["kind"] == "bool_series")
            want = case["index"]["vals"] if case.get("index") is not None and has_pd else list(range(n))
        if t.index != want:
            fails.append({"monitor": "c07.index", "sig": sig, "detail": f"{op}: transform index {t.index[:6]} != input index {want[:6]}"})
    lk = common.lkeys_ns(case["keys"])
    try:
        rmap = r.as_map()
    except ValueError as e:
        return fails + [{"monitor": "c07.shape", "sig": sig, "detail": str(e)}]
    tol = ops.float_tol("sum" if op == "apply" else op, case["val"], n)
    for i in range(n):
        k = lk[i]
        v = t.vals[i]
        if k is None or k not in rmap:
            if not ops.is_neutral(v, op, t.dtype):
                why = "null key" if k is None else "group without selected row"
                fails.append({"monitor": "c07.neutral", "sig": sig, "detail": f"{op}: row {i} ({why}) carries {v!r} (dtype {t.dtype})"})
                break
        elif not ops.same_value(v, rmap[k], tol, nullzero=op in ("var", "std")) and not (cmp.is_null(rmap[k]) and ops.is_neutral(v, op, t.dtype)):
            fails.append({"monitor": "c07.value", "sig": sig, "detail": f"{op}: row {i} key {k!r}: transform gives {v!r}, the group's result is {rmap[k]!r}"})
            break
    if not fails and case.get("val2") is not None:
        fails += check_columns(case, ctx, sig)
    return fails


def check_columns(case, ctx, sig):
    """several value columns of different dtypes: the row-aligned frame has one column per input, in input order, and every column
    is (same dtype; same values, floating sums and means to rounding) the transform of that input alone - which the caller has just compared with its group results."""
    import pandas as pd

    op, n = case["op"], case["n"]
    keys_obj, _, mask, idx = ops.build_inputs(case)
    a = pd.Series(gen.val_np(case["val"]), index=idx, name="a")
    b = pd.Series(gen.val_np(case["val2"]), index=idx, name="b")
    shape = case.get("shape2", "frame")
    values = {"frame": lambda: pd.DataFrame({"a": a, "b": b}), "dict": lambda: {"a": a.to_numpy(), "b": b.to_numpy()}, "list": lambda: [a, b]}[shape]()
    st = case.get("strategy")
    if st:
        lib.set_strategy(**st)
    try:
        gb = ops.make_gb(keys_obj, sort=case.get("sort", True))
        T = lib.call(getattr(gb, op), values, mask=mask, transform=True)
        singles = [lib.call(getattr(gb, op), x if shape != "dict" else x.to_numpy(), mask=mask, transform=True) for x in (a, b)]
    finally:
        if st:
            lib.reset_strategy()
    ctx.count("multi_column_transforms")
    if lib.raised(T) or any(lib.raised(x) for x in singles):
        if lib.raised(T) and not any(lib.raised(x) for x in singles):
            return [{"monitor": "c07.raised", "sig": sig + "|columns", "detail": f"{op}(transform=True) over two columns ({shape}) raised {T!r} although each column alone is accepted"}]
        return []
    if not isinstance(T, pd.DataFrame) or [str(c) for c in T.columns] != ["a", "b"]:
        return [{"monitor": "c07.shape", "sig": sig + "|columns", "detail": f"{op}(transform=True) over columns a, b ({shape}) returned {type(T).__name__} with columns {list(getattr(T, 'columns', []))}"}]
    for name, single in zip(["a", "b"], singles):
        col = T[name]
        sd = getattr(single, "dtype", None)
        if str(col.dtype) != str(sd):
            return [{"monitor": "c07.value", "sig": sig + "|columns", "detail": f"{op}: column {name} of the row-aligned frame has dtype {col.dtype}, alone it has {sd} (other column: {T.dtypes.to_dict()})"}]
        x, y = cmp.col_py(col), cmp.col_py(single)
        spec = case["val"] if name == "a" else case["val2"]
        # floating sums / means may differ by rounding between two executions (block order); everything else is exact
        tol = ops.float_tol(op, spec, n) if (op in ("sum", "mean") and np.dtype(spec["dtype"]).kind == "f") else 0.0
        bad = [i for i, (p, q) in enumerate(zip(x, y)) if not ((cmp.is_null(p) and cmp.is_null(q)) or p == q or (tol and ops.same_value(p, q, tol)))]
        if bad or len(x) != len(y):
            i = bad[0] if bad else -1
            return [{"monitor": "c07.value", "sig": sig + "|columns", "detail": f"{op}: column {name} row {i}: {x[i]!r} in the frame, {y[i]!r} alone"}]
    return []


def gen_case(rng, dtypes):
    pool = [o for o in OPS if o != "apply"]
    case = common.gen_opcase(rng, pool, dtypes, mask_kinds=["none", "none", "bool", "bool", "bool_series"], index_p=0.6)
    n = case["n"]
    if rng.random() < 0.08 and np.dtype(case["val"]["dtype"]).kind in "fiu":
        case["op"] = "apply"
        case["params"] = {"func": gen.pick(rng, list(FUNCS))}
        if case["mask"] is not None and case["mask"]["kind"] == "bool_series":
            case["mask"]["kind"] = "bool"
    if case["vc"] == "pd" and case["index"] is None and rng.random() < 0.5:
        case["index"] = gen.gen_index(rng, n)
    r = rng.random()
    if r < 0.12 and case["val"].get("tz") is None:
        dtk = np.dtype(case["val"]["dtype"]).kind
        if dtk in "fiu" or (dtk in "mM" and all(v is not None for v in case["val"]["vals"])):
            # container-level nulls and booleans in Arrow-family containers are C12's subject
            case["vc"] = "pl"
            case["index"] = None
        if case["mask"] is not None and case["mask"]["kind"] == "bool_series":
            case["mask"]["kind"] = "bool"
    dtk = np.dtype(case["val"]["dtype"]).kind
    if case["op"] in ("sum", "min", "max", "first", "last", "mean", "count") and case["vc"] in ("np", "pd") and case["val"].get("tz") is None and rng.random() < 0.25:
        # a second value column of another dtype (64-bit ids beyond 2**53 next to floats, floats next to integers)
        d2 = "int64" if dtk in "fb" else gen.pick(rng, ["float64", "float32", "uint64" if dtk == "i" else "float64"])
        v2 = gen.gen_vals(rng, n, d2, magnitude="small" if np.dtype(d2).kind != "i" else None)
        if d2 == "int64":
            v2["vals"] = [None if v is None else int(2**53 + 1 + 2 * i) * (-1 if i % 3 == 0 else 1) for i, v in enumerate(v2["vals"])]
        if d2 == "uint64":
            v2["vals"] = [None if v is None else int(2**63 + 5 + i) for i, v in enumerate(v2["vals"])]
        if ops.accepts(case["op"], d2):
            case["val2"] = v2
            case["shape2"] = gen.pick(rng, ["frame", "frame", "dict", "list"])
    if rng.random() < 0.3 and len(case["keys"]) == 1 and case["keys"][0]["kind"] != "cat" and n >= 4:
        case["strategy"] = {"chunk_threshold": int(gen.pick(rng, [2, 4, 8])), "key_chunks": int(rng.integers(2, 5))}
    return case


def run(ctx):
    dtypes = common.ALL_DTYPE_SHARDS[ctx.shard % len(common.ALL_DTYPE_SHARDS)]
    rng = gen.rng_for(ctx.seed, "C07", ctx.shard, 1 if ctx.mode != "prod" else 0)
    ncases = N_CASES[ctx.tier] if ctx.mode == "prod" else max(50, N_CASES[ctx.tier] // 3)
    for _ in range(ncases):
        ctx.run_case(gen_case(rng, dtypes), check, features, nontrivial, common.shrink)
