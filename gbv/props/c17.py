"""C17 - the pandas-style facade agrees with the core engine and with pandas (differential monitor)."""
import contextlib
import io
import math

import numpy as np
import pandas as pd

from .. import cmp, gen, lib, ops
from . import common

LEVEL = "exploration"
RULE = ("seeded random Series/DataFrames (float, int, bool columns incl. zeros, negatives and nulls; default, permuted, "
        "duplicated, string and MultiIndex row indexes) grouped through obj.groupby_fast with keys given as column names, "
        "arrays, Series, index levels (by position and by name; for frames also level names listed in by= before or after column names) and mixtures, with and without [] column selection. Every "
        "facade method (sum, mean, min, max, count, size, std, var, first, last, median, cumsum, cummin, cummax, cumcount, "
        "rolling(w).sum/mean/min/max, head, tail, nth, agg, iteration, groups) is compared with GroupBy(keys) on the selected "
        "value columns, and - for the null-skipping operations pandas also offers - with obj.groupby(...) in pandas (cumulative "
        "and rolling results at rows holding a non-null value). distinct = case digests; non-trivial = >= 2 groups, >= 3 rows")
ASSUMPTIONS = [
    "pandas (3.x) is the second, independent implementation: dropna=True, sort=True, skipna semantics, ddof=1, min_count=0",
    "float results compared to 1e-9 relative / the variance bound; labels, counts, min/max/first/last exactly",
    "categorical and datetime columns are not driven here (category observation and datetime means are C11 / K01 subjects)",
]
AGG = ["sum", "mean", "min", "max", "count", "size", "std", "var", "first", "last", "median"]
CUM = ["cumsum", "cummin", "cummax", "cumcount"]
ROLL = ["rolling_sum", "rolling_mean", "rolling_min", "rolling_max"]
OTHER = ["head", "tail", "nth", "agg_str", "iterate", "groups", "ngroups"]
METHODS = AGG * 2 + CUM + ROLL + OTHER
N_CASES = {"quick": 450, "thorough": 10000}
NSH = 8


def plan(tier):
    p = [dict(shard=i, nshards=NSH, mode="prod") for i in range(NSH)]
    p.append(dict(shard=0, nshards=NSH, mode="bounds"))
    if tier == "thorough":
        p += [dict(shard=i, nshards=NSH, mode="bounds") for i in range(1, 4)]
    return p


def required_counters(tier):
    return ["vs_core", "vs_pandas", "series_obj", "frame_obj", "by_column", "by_array", "by_level", "by_mixed", "by_level_names", "by_level_name_before_column_name", "key_series_named_like_a_value_column", "selection", "multiindex", "duplicate_index",
            "zeros_in_values", "iteration_checked"] + [f"m:{m}" for m in set(METHODS)]


def install():
    from groupby_lib import install_groupby_fast

    if not hasattr(pd.Series, "groupby_fast"):
        with contextlib.redirect_stdout(io.StringIO()):
            install_groupby_fast()


def features(case):
    return [f"m={case['method']}|obj={case['obj']}|by={case['by_form']}|sel={case['select']}|idx={case['index_kind']}"]


def nontrivial(case):
    return case["n"] >= 3 and len({tuple(r) for r in zip(*[k["vals"] for k in case["keycols"]]) if None not in r}) >= 2


def build(case):
    """returns (obj, by, level, pandas_by, value_columns, key_arrays)"""
    n = case["n"]
    ik = case["index_kind"]
    if ik == "default":
        index = pd.RangeIndex(n)
    elif ik == "multi":
        index = pd.MultiIndex.from_arrays([np.array(case["lvl0"]), np.array(case["lvl1"], dtype=object)], names=["L0", "L1"])
    else:
        index = pd.Index(case["index_vals"], name="ix" if case.get("index_named") else None)
    cols = {}
    for c in case["valcols"]:
        cols[c["name"]] = gen.val_np(c)
    for k in case["keycols"]:
        arr = gen.key_array(k, "np")
        cols[k["name"]] = arr
    df = pd.DataFrame(cols, index=index)
    keynames = [k["name"] for k in case["keycols"]]
    valnames = [c["name"] for c in case["valcols"]]
    form = case["by_form"]
    by = level = None
    if case["obj"] == "series":
        obj = df[valnames[0]]
        if form == "level":
            level = case["level"]
        elif form == "names":
            by = list(case["by_names"])
        elif form == "mixed":
            by = [df[keynames[0]].to_numpy()]
            level = case["level"]
        elif form == "series":
            by = [df[kn] for kn in keynames]
        else:
            by = [df[kn].to_numpy() for kn in keynames]
        if by is not None and len(by) == 1 and form not in ("mixed", "names"):
            by = by[0]
        value_columns = [valnames[0]]
    else:
        if form == "column":
            obj = df
            by = keynames if len(keynames) > 1 else keynames[0]
        elif form == "array":
            obj = df[valnames]
            by = [df[kn].to_numpy() for kn in keynames]
            by = by if len(by) > 1 else by[0]
        elif form == "series":
            obj = df[valnames]
            by = [df[kn] for kn in keynames]
            if case.get("series_named_like_value"):
                # a derived key that kept the name of a column it was computed from (df["x"] // 10): still an outside key, x is a value
                # (unless it EQUALS that column - pandas then takes it for the column itself; not driven)
                try:
                    same = bool(by[0].rename(valnames[0]).equals(obj[valnames[0]])) or bool((by[0].to_numpy() == obj[valnames[0]].to_numpy()).all())
                except Exception:
                    same = True
                if not same:
                    # a fresh buffer: pandas decides "is this key a column of the frame" by shared block references, and a renamed
                    # view of key0 shares its block with every other column of the same dtype
                    by[0] = pd.Series(by[0].to_numpy().copy(), index=by[0].index, name=valnames[0])
        elif form == "level":
            obj = df[valnames]
            level = case["level"]
        elif form == "names":  # by = names of index levels and of columns, in any order
            obj = df[valnames + [nm for nm in keynames if nm in case["by_names"]]]
            by = list(case["by_names"])
        else:  # mixed: a column name and an index level
            obj = df[valnames + keynames[:1]]
            by = keynames[0]
            level = case["level"]
        value_columns = list(valnames)
    return df, obj, by, level, value_columns


def key_arrays(case, df, by, level):
    """the key arrays in facade order (by first, then level)."""
    keys = []
    form = case["by_form"]
    keynames = [k["name"] for k in case["keycols"]]
    if form in ("column", "array", "series"):
        keys = [df[kn].to_numpy() for kn in keynames]
    elif form == "level":
        lv = level if isinstance(level, list) else [level]
        keys = [df.index.get_level_values(l).to_numpy() for l in lv]
    elif form == "names":
        keys = [df[nm].to_numpy() if nm in df.columns else df.index.get_level_values(nm).to_numpy() for nm in by]
    else:
        keys = [df[keynames[0]].to_numpy()]
        lv = level if isinstance(level, list) else [level]
        keys += [df.index.get_level_values(l).to_numpy() for l in lv]
    return keys


def _norm(res):
    """result -> (labels-or-index list, {column: values})"""
    if isinstance(res, pd.Series):
        return [tuple(cmp.py(x) for x in i) if isinstance(i, tuple) else (cmp.py(i),) for i in res.index.tolist()], {"__s__": cmp.col_py(res)}
    return [tuple(cmp.py(x) for x in i) if isinstance(i, tuple) else (cmp.py(i),) for i in res.index.tolist()], {str(c): cmp.col_py(res[c]) for c in res.columns}


def _cmp_frames(a, b, tol_fn, what, by_label=True, only_where=None, ignore_index=False):
    ia, ca = _norm(a)
    ib, cb = _norm(b)
    if ignore_index and len(ia) == len(ib):
        ib = ia
    if isinstance(a, pd.Series) != isinstance(b, pd.Series):
        if len(ca) == 1 and len(cb) == 1:
            ca = {"__s__": list(ca.values())[0]}
            cb = {"__s__": list(cb.values())[0]}
        else:
            return f"{what}: one is a Series, the other a frame with columns {list(cb) if isinstance(b, pd.DataFrame) else list(ca)}"
    if list(ca) != list(cb):
        return f"{what}: columns {list(ca)} vs {list(cb)}"
    if by_label:
        if len(set(ia)) != len(ia) or set(ia) != set(ib):
            return f"{what}: labels {sorted(set(ia) ^ set(ib), key=repr)[:4]} differ"
        if ia != ib:
            return f"{what}: label order {ia[:6]} vs {ib[:6]}"
    else:
        if ia != ib:
            return f"{what}: row index differs {ia[:5]} vs {ib[:5]}"
    for c in ca:
        for j, (x, y) in enumerate(zip(ca[c], cb[c])):
            if only_where is not None and not only_where(c, j):
                continue
            if cmp.is_null(x) and cmp.is_null(y):
                continue
            if cmp.is_null(x) or cmp.is_null(y):
                return f"{what}: column {c} row {ia[j]!r}: {x!r} vs {y!r}"
            if isinstance(x, bool) or isinstance(y, bool):
                if bool(x) != bool(y) and float(x) != float(y):
                    return f"{what}: column {c} row {ia[j]!r}: {x!r} vs {y!r}"
                continue
            if abs(float(x) - float(y)) > tol_fn(c, x, y):
                return f"{what}: column {c} row {ia[j]!r}: {x!r} vs {y!r}"
    return None


def check(case, ctx):
    from groupby_lib import GroupBy

    install()
    fails = []
    m = case["method"]
    ctx.count(f"m:{m}")
    df, obj, by, level, vcols = build(case)
    ctx.count("series_obj" if isinstance(obj, pd.Series) else "frame_obj")
    ctx.count({"column": "by_column", "array": "by_array", "series": "by_array", "level": "by_level", "mixed": "by_mixed", "names": "by_level_names"}[case["by_form"]])
    if case.get("series_named_like_value"):
        ctx.count("key_series_named_like_a_value_column")
    if case["by_form"] == "names" and any(nm in df.columns for nm in by) and by[0] not in df.columns:
        ctx.count("by_level_name_before_column_name")
    if case["index_kind"] == "multi":
        ctx.count("multiindex")
    if case["index_kind"] == "dup":
        ctx.count("duplicate_index")
    if any(any(v == 0 for v in c["vals"] if v is not None) for c in case["valcols"]):
        ctx.count("zeros_in_values")
    sig = f"{m}|{case['obj']}"
    fg = lib.call(obj.groupby_fast, by=by, level=level)
    if lib.raised(fg):
        return [{"monitor": "c17.raised", "sig": f"{sig}|construct|{type(fg.exc).__name__}", "detail": f"groupby_fast(by={case['by_form']}, level={level}) raised {fg!r}"}]
    keys = key_arrays(case, df, by, level)
    if case["by_form"] == "mixed":
        # (pandas ignores level= when by= is given: spell the level values out, keep the column key by name)
        first = by if isinstance(obj, pd.DataFrame) else pd.Series(keys[0], index=obj.index)
        pg = obj.groupby(by=[first] + [pd.Series(k, index=obj.index) for k in keys[1:]])
    else:
        pg = obj.groupby(by=by, level=level)
    sel = case["select"]
    if sel != "none" and isinstance(obj, pd.DataFrame):
        ctx.count("selection")
        pick = vcols[0] if sel == "one" else vcols[: max(1, len(vcols) - 1)]
        fg = lib.call(lambda: fg[pick])
        if lib.raised(fg):
            return [{"monitor": "c17.raised", "sig": f"{sig}|getitem", "detail": f"[{pick!r}] raised {fg!r}"}]
        pg = pg[pick]
        vcols = [pick] if sel == "one" else list(pick)
    core = GroupBy(keys if len(keys) > 1 else keys[0])
    vals = df[vcols[0]] if (isinstance(obj, pd.Series) or sel == "one") else df[vcols]
    w = case.get("window", 2)
    n = case["n"]

    def tolf(c, x, y):
        if m in ("std", "var"):
            col = df[vcols[0]] if c == "__s__" else df[c]
            mx = float(np.nanmax(np.abs(col.to_numpy().astype("float64")))) if len(col) and col.notna().any() else 0.0
            b = 16.0 * (n + 2) * (2.0**-23 if str(col.dtype) == "float32" else 2.0**-52) * mx * mx
            return (math.sqrt(b) if m == "std" else b) + 1e-12
        col = df[vcols[0]] if c == "__s__" else (df[c] if c in df.columns else df[vcols[0]])
        rel = 1e-5 if str(col.dtype) == "float32" else 1e-9
        scale = float(np.nanmax(np.abs(col.to_numpy().astype("float64")))) * max(1, n) if len(col) and col.notna().any() else 1.0
        return rel * max(1.0, abs(float(y)), scale if m in ("sum", "mean", "cumsum") or m.startswith("rolling") else 0.0)

    # ---- run the facade method
    def facade():
        if m in AGG:
            return getattr(fg, m)()
        if m in CUM:
            return getattr(fg, m)()
        if m in ROLL:
            return getattr(fg.rolling(w, min_periods=case.get("min_periods", 1)), m.replace("rolling_", ""))()
        if m in ("head", "tail"):
            return getattr(fg, m)(case["k"])
        if m == "nth":
            return fg.nth(case["k"])
        if m == "agg_str":
            return fg.agg(case["aggfunc"])
        if m == "groups":
            return fg.groups
        if m == "ngroups":
            return fg.ngroups
        if m == "iterate":
            return list(iter(fg))
        raise KeyError(m)

    if m == "median" and not any(not any(pd.isna(k[i]) for k in keys) for i in range(n)):
        ctx.count("k03_region_skipped")
        return []
    fr = lib.call(facade)
    if lib.raised(fr):
        return [{"monitor": "c17.raised", "sig": f"{sig}|{type(fr.exc).__name__}", "detail": f"facade {m} (obj={case['obj']}, by={case['by_form']}, select={sel}, index={case['index_kind']}) raised {fr!r}"}]

    # ---- core engine on the selected columns
    def engine():
        if m == "size":
            return core.size()
        if m in AGG:
            return getattr(core, m)(vals)
        if m == "cumcount":
            return core.cumcount()
        if m in CUM:
            return getattr(core, m)(vals)
        if m in ROLL:
            return getattr(core, m)(vals, window=w, min_periods=case.get("min_periods", 1))
        if m in ("head", "tail"):
            return getattr(core, m)(vals, case["k"], keep_input_index=True)
        if m == "nth":
            return core.nth(vals, case["k"], keep_input_index=True)
        if m == "agg_str":
            return getattr(core, case["aggfunc"])(vals)
        return None

    if m in AGG or m in CUM or m in ROLL or m == "agg_str":
        er = lib.call(engine)
        ctx.count("vs_core")
        if lib.raised(er):
            fails.append({"monitor": "c17.core", "sig": sig + "|core_raised", "detail": f"core engine {m} raised {er!r} while the facade returned"})
        elif not isinstance(fr, (pd.Series, pd.DataFrame)):
            fails.append({"monitor": "c17.core", "sig": sig + "|type", "detail": f"facade {m} returned {type(fr).__name__}"})
        else:
            d = _cmp_frames(fr, er, lambda c, x, y: 1e-12 * max(1.0, abs(float(y))), f"facade {m} vs GroupBy.{m} on the selected columns {vcols}", by_label=(m in AGG or m == "agg_str"))
            if d:
                fails.append({"monitor": "c17.core", "sig": sig, "detail": d})

    # ---- pandas
    if m in ("sum", "mean", "min", "max", "count", "size", "std", "var", "first", "last", "agg_str"):
        pm = case["aggfunc"] if m == "agg_str" else m
        pr = getattr(pg, pm)() if pm != "size" else pg.size()
        ctx.count("vs_pandas")
        d = _cmp_frames(fr, pr, tolf, f"facade {m} vs pandas groupby.{pm}", by_label=True) if isinstance(fr, (pd.Series, pd.DataFrame)) else f"facade {m} returned {type(fr).__name__}"
        if d:
            fails.append({"monitor": "c17.pandas", "sig": sig, "detail": d})
    elif m in ("cumsum", "cummin", "cummax", "cumcount"):
        pr = getattr(pg, m)()
        ctx.count("vs_pandas")
        valmat = {("__s__" if isinstance(fr, pd.Series) else str(c)): df[c].to_numpy() for c in vcols} if isinstance(fr, (pd.Series, pd.DataFrame)) else {}
        knull = np.zeros(n, bool)
        for k in keys:
            knull |= pd.isna(k)

        def where(c, j):
            if knull[j]:
                return False
            if m == "cumcount":
                return True
            col = valmat.get(c)
            return col is not None and not pd.isna(col[j])

        d = _cmp_frames(fr, pr, tolf, f"facade {m} vs pandas groupby.{m} (rows holding a value)", by_label=False, only_where=where, ignore_index=(m == "cumcount")) if isinstance(fr, (pd.Series, pd.DataFrame)) else "not a pandas object"
        if d:
            fails.append({"monitor": "c17.pandas", "sig": sig, "detail": d})
    elif m in ROLL and case["index_kind"] in ("default", "perm") and case.get("min_periods", 1) == 1:
        name = m.replace("rolling_", "")
        try:
            pr = getattr(pg.rolling(w, min_periods=1), name)()
        except ValueError:  # pandas itself cannot roll over a grouping without groups
            ctx.count("pandas_reference_unavailable")
            return fails
        pr = pr.reset_index(level=list(range(pr.index.nlevels - 1)), drop=True) if pr.index.nlevels > 1 else pr
        pr = pr.reindex(obj.index) if obj.index.is_unique else None
        if pr is not None and isinstance(fr, (pd.Series, pd.DataFrame)):
            ctx.count("vs_pandas")
            if isinstance(pr, pd.DataFrame) and isinstance(fr, pd.DataFrame):
                pr = pr[[c for c in pr.columns if c in set(fr.columns)]]  # (pandas' own column order is kept: it is compared)
            valmat = {("__s__" if isinstance(fr, pd.Series) else str(c)): df[c].to_numpy() for c in vcols}
            knull = np.zeros(n, bool)
            for k in keys:
                knull |= pd.isna(k)
            d = _cmp_frames(fr, pr, tolf, f"facade {m}(window={w}) vs pandas rolling (rows holding a value)", by_label=False,
                            only_where=lambda c, j: not knull[j] and c in valmat and not pd.isna(valmat[c][j]))
            if d:
                fails.append({"monitor": "c17.pandas", "sig": sig, "detail": d})
    elif m in ("head", "tail", "nth"):
        er = lib.call((lambda: getattr(core, m)(vals, case["k"])))
        ctx.count("vs_core")
        if lib.raised(er):
            fails.append({"monitor": "c17.core", "sig": sig + "|core_raised", "detail": f"core {m}({case['k']}) raised {er!r} while the facade returned"})
        elif isinstance(fr, (pd.Series, pd.DataFrame)):
            d = _cmp_frames(fr, er, lambda c, x, y: 0.0, f"facade {m}({case['k']}) vs GroupBy.{m} on the selected columns {vcols}", by_label=False)
            if d:
                fails.append({"monitor": "c17.core", "sig": sig, "detail": d})
        # the rows themselves: the same multiset of rows as pandas selects
        pr = getattr(pg, m)(case["k"])
        ctx.count("vs_pandas")
        if isinstance(fr, (pd.Series, pd.DataFrame)):
            a = sorted(map(repr, zip(*[cmp.col_py(fr)] if isinstance(fr, pd.Series) else [cmp.col_py(fr[c]) for c in fr.columns])))
            b = sorted(map(repr, zip(*[cmp.col_py(pr)] if isinstance(pr, pd.Series) else [cmp.col_py(pr[c]) for c in fr.columns if c in pr.columns])))
            if isinstance(pr, pd.DataFrame) and isinstance(fr, pd.DataFrame):
                pr = pr[[c for c in pr.columns if c in set(fr.columns)]]  # pandas keeps the key columns in head/tail/nth rows
            if isinstance(pr, pd.DataFrame) and isinstance(fr, pd.DataFrame) and [c for c in fr.columns] != [c for c in pr.columns]:
                fails.append({"monitor": "c17.pandas", "sig": sig + "|columns", "detail": f"facade {m} columns {list(fr.columns)} vs pandas {list(pr.columns)}"})
            elif a != b:
                fails.append({"monitor": "c17.pandas", "sig": sig, "detail": f"facade {m}({case['k']}) selects other rows than pandas: {a[:5]} vs {b[:5]}"})
    elif m == "ngroups":
        # the facade counts the labels the grouping reports (both booleans, all categories): compare with the core only
        if fr != core.ngroups:
            fails.append({"monitor": "c17.core", "sig": sig, "detail": f"ngroups {fr} vs core {core.ngroups}"})
    elif m == "groups":
        pgroups = {(tuple(cmp.py(x) for x in k) if isinstance(k, tuple) else (cmp.py(k),)): sorted(map(repr, v)) for k, v in pg.groups.items()}
        got = {}
        for k, v in fr.items():
            kk = tuple(cmp.py(x) for x in k) if isinstance(k, tuple) else (cmp.py(k),)
            got[kk] = sorted(map(repr, obj.index[np.asarray(v)]))
        if got != pgroups:
            fails.append({"monitor": "c17.pandas", "sig": sig, "detail": f"groups (as index labels) {list(got.items())[:3]} vs pandas {list(pgroups.items())[:3]}"})
    elif m == "iterate":
        ctx.count("iteration_checked")
        want = [(k, g) for k, g in pg]
        if len(fr) != len(want):
            fails.append({"monitor": "c17.iter", "sig": sig, "detail": f"iteration yields {len(fr)} groups, pandas {len(want)}"})
        else:
            wl = [tuple(cmp.py(x) for x in k) if isinstance(k, tuple) else (cmp.py(k),) for k, _ in want]
            gl = [tuple(cmp.py(x) for x in k) if isinstance(k, tuple) else (cmp.py(k),) for k, _ in fr]
            if sorted(gl, key=repr) != sorted(wl, key=repr) or len(set(gl)) != len(gl):
                fails.append({"monitor": "c17.iter", "sig": sig, "detail": f"iteration labels {gl[:5]} vs pandas {wl[:5]}"})
            else:
                wd = dict(zip(wl, [g for _, g in want]))
                for k, g in zip(gl, [g for _, g in fr]):
                    e = wd[k]
                    same = g.shape == e.shape and g.index.tolist() == e.index.tolist() and all(
                        cmp.col_py(g if isinstance(g, pd.Series) else g[c]) == cmp.col_py(e if isinstance(e, pd.Series) else e[c])
                        for c in ([None] if isinstance(g, pd.Series) else g.columns))
                    if not same:
                        fails.append({"monitor": "c17.iter", "sig": sig, "detail": f"iteration: group {k!r} has rows {g.index.tolist()[:6]}, pandas {e.index.tolist()[:6]}"})
                        break
    return fails


def gen_case(rng):
    n = int(rng.integers(1, 31))
    nk = gen.pick(rng, [1, 1, 2])
    keycols = [dict(gen.gen_key(rng, n, kind=gen.pick(rng, ["int", "str", "float", "bool", "int"]), nlabels=int(rng.integers(1, 5)), null_p=gen.pick(rng, [0.0, 0.0, 0.2])), name=f"key{i}") for i in range(nk)]
    nv = int(rng.integers(1, 4))
    valcols = []
    vnames = [str(x) for x in rng.permutation(["v0", "v1", "v2", "amount", "Weight", "z"])[:nv]]  # frame order is not label order
    for j in range(nv):
        dtype = gen.pick(rng, ["float64", "int64", "bool", "float64", "int32", "float32"])
        vs = gen.gen_vals(rng, n, dtype, magnitude="small" if dtype.startswith(("int", "float")) else None, null_mode=gen.pick(rng, ["none", "sparse", "allnull_group"]))
        vs["name"] = vnames[j]
        valcols.append(vs)
    obj = gen.pick(rng, ["series", "frame", "frame"])
    method = gen.pick(rng, METHODS)
    ik = gen.pick(rng, ["default", "perm", "dup", "str", "multi"])
    form = gen.pick(rng, ["column", "array", "series", "level", "mixed", "names"]) if obj == "frame" else gen.pick(rng, ["array", "series", "level", "mixed"])  # (SeriesGroupBy documents by= as array-like: no level names there)
    case = {"n": n, "keycols": keycols, "valcols": valcols, "obj": obj, "method": method, "index_kind": ik, "by_form": form,
            "select": gen.pick(rng, ["none", "none", "one", "many"]) if obj == "frame" else "none", "window": int(rng.integers(1, 4)),
            "k": int(rng.integers(0, 4)), "aggfunc": gen.pick(rng, ["sum", "mean", "max", "min", "count"]), "noshrink": True}
    if form == "series" and obj == "frame" and method not in ROLL and rng.random() < 0.35:  # (pandas' rolling drops columns by key NAME)
        case["series_named_like_value"] = True
    if form in ("level", "mixed", "names"):
        ik = case["index_kind"] = gen.pick(rng, ["multi", "multi", "keyindex"])
    if ik == "perm":
        case["index_vals"] = [int(x) for x in rng.permutation(n) + 3]
    elif ik == "dup":
        case["index_vals"] = [int(x) for x in rng.integers(0, max(2, n // 2), size=n)]
    elif ik == "str":
        case["index_vals"] = [f"r{int(x)}" for x in rng.permutation(n)]
    elif ik == "keyindex":
        case["index_vals"] = [int(x) for x in rng.integers(0, 3, size=n)]
        case["index_named"] = True
        case["level"] = gen.pick(rng, [0, "ix"])
    if ik == "multi":
        case["lvl0"] = [int(x) for x in rng.integers(0, 3, size=n)]
        case["lvl1"] = [gen.pick(rng, ["p", "q", "r"]) for _ in range(n)]
        case["level"] = gen.pick(rng, [0, 1, "L0", "L1", [0, 1], ["L1", "L0"]])
    if form in ("level",):
        case["keycols"] = keycols[:1]
    if form == "mixed":
        case["keycols"] = keycols[:1]
    if form == "names":
        case["keycols"] = keycols[:1]
        lv = ["L0", "L1"] if ik == "multi" else ["ix"]
        pool = lv + (["key0"] if obj == "frame" else [])
        k = int(rng.integers(1, len(pool) + 1))
        names = [pool[int(i)] for i in rng.permutation(len(pool))[:k]]
        if not any(nm in lv for nm in names):
            names.insert(int(rng.integers(0, len(names) + 1)), lv[int(rng.integers(len(lv)))])
        case["by_names"] = names
    if case["method"] == "nth":
        case["k"] = int(rng.integers(-3, 4))
    # the facade must hand min_periods through unchanged (None = window, 0 = no minimum)
    case["min_periods"] = gen.pick(rng, [1, 1, None, 0, case["window"]])
    if case["method"] == "rolling_mean" and case["min_periods"] == 0:
        case["min_periods"] = 1  # a mean over zero observations is outside the documented range (min_periods >= 1)
    return case


def run(ctx):
    rng = gen.rng_for(ctx.seed, "C17", ctx.shard, 1 if ctx.mode != "prod" else 0)
    ncases = N_CASES[ctx.tier] if ctx.mode == "prod" else max(50, N_CASES[ctx.tier] // 3)
    for _ in range(ncases):
        ctx.run_case(gen_case(rng), check, features, nontrivial)
