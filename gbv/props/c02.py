"""C02 - factorization is a faithful partition of the rows (invariant monitor on constructed groupings)."""
import numpy as np
import pandas as pd

from .. import cmp, gen, lib, model, ops
from . import common

LEVEL = "exploration"
RULE = ("seeded random key columns (int, float, str, bool, datetime in ns/us/s, categorical with unused categories, "
        "RangeIndex with step != 1; 1-3 keys; nulls in the first/middle/last key; layouts mixed/sorted/sorted-prefix/block/"
        "largest-first) poured into numpy, pandas, pd.Index, pyarrow (plain and chunked), Arrow-backed pandas and polars, "
        "with the chunking threshold scaled so that small inputs take the chunk-wise, monotonic and sorted-prefix routes. "
        "For every constructed GroupBy and every direct factorize_1d / factorize_2d / monotonic_factorization return the "
        "invariants I1-I6 (codes in range, null code iff null key, labels[code] == key, labels distinct, groups = ascending "
        "positions partitioning the non-null rows, sizes add up) are evaluated against the logical keys. The route taken is "
        "observed on the object, not assumed. Plus keys with 127..65537 (thorough: 140000) distinct labels per kind and multi-key "
        "groupings whose level-size product lies on both sides of the combiner's 500,000,000 switch, checked vectorised. distinct = case digests; non-trivial = >= 2 distinct labels and >= 3 rows")
ASSUMPTIONS = [
    "logical nulls are NaN/None/NaT in numpy and pandas containers and Arrow nulls in Arrow-family containers; NaN inside an "
    "Arrow/polars float column is not driven (the containers themselves do not treat it as missing)",
    "for chunk-local codes the partition is observed through groups, size() and first(arange(n), transform=True)",
    "labels of integer keys holding nulls may come back as floats; labels are compared by value",
]
N_CASES = {"quick": 1100, "thorough": 12000}
KC_SHARDS = [["np"], ["np", "pd"], ["pd", "pd_index"], ["pa"], ["pl"], ["pd_arrow"], ["pa_chunked"], ["pd_arrow_chunked"],
             ["np"], ["np"], ["np", "pa", "pl"], ["pd", "pd_arrow"]]


def plan(tier):
    return common.std_plan(tier, nshards=len(KC_SHARDS)) + [dict(shard=100, nshards=1, mode="prod")]


MANY = {"quick": [127, 128, 129, 255, 256, 257, 32767, 32768, 65535, 65536, 65537],
        "thorough": [127, 128, 129, 255, 256, 257, 300, 32767, 32768, 32769, 65535, 65536, 65537, 70000, 140000]}


def _many_key(rng, kind, L, n, null_p):
    """n rows over exactly L distinct labels (every label occurs), random order; returns (array-like key, object array of logical values)"""
    lab = rng.permutation(L)
    rows = np.concatenate([lab, rng.integers(0, L, size=n - L)])
    rows = rows[rng.permutation(n)]
    null = rng.random(n) < null_p
    if kind == "int":
        arr = (rows.astype("int64") * 7 - 1000)
        if null.any():  # an integer key has no null: make it a float key
            arr = arr.astype("float64")
            arr[null] = np.nan
        return arr, null
    if kind == "float":
        arr = rows.astype("float64") / 4.0
        arr[null] = np.nan
        return arr, null
    if kind == "dt":
        arr = (rows.astype("int64") * 1_000_000_007 + 1_600_000_000_000_000_000).view("datetime64[ns]").copy()
        arr[null] = np.datetime64("NaT")
        return arr, null
    words = np.array([f"w{int(x):06d}" for x in range(L)], dtype=object)
    if kind == "str":
        arr = words[rows].copy()
        arr[null] = None
        return arr, null
    codes = rows.astype("int64").copy()
    codes[null] = -1
    return pd.Categorical.from_codes(codes, categories=list(words[rng.permutation(L)])), null


def check_many(case, ctx):
    """many labels: codes, labels and sizes against the keys themselves (vectorised I1-I4, I6), across the 8/16-bit code boundaries
    and across the dense-array / dictionary switch of the multi-key combiner (cartesian product of the level sizes >= 500,000,000)."""
    from groupby_lib import GroupBy

    rng = np.random.Generator(np.random.PCG64(case["seed"]))
    n = case["n"]
    built = [_many_key(rng, kind, L, n, case["null_p"]) for kind, L in zip(case["kinds"], case["L"])]
    arrs = [b[0] for b in built]
    null = np.zeros(n, bool)
    for b in built:
        null |= b[1]
    sig = f"many|{'+'.join(case['kinds'])}|sort={case['sort']}"
    gb = lib.call(GroupBy, arrs if len(arrs) > 1 else arrs[0], sort=case["sort"])
    if lib.raised(gb):
        return [{"monitor": "c02.raised", "sig": sig, "detail": f"GroupBy over {case['L']} labels raised {gb!r}"}]
    codes = np.asarray(gb.group_ikey).astype("int64")
    idx = gb.result_index
    what = f"keys {case['kinds']} with {case['L']} labels, {n} rows"
    if len(codes) != n:
        return [{"monitor": "c02.codes", "sig": sig, "detail": f"{what}: {len(codes)} codes"}]
    if ((codes < 0) != null).any():
        i = int(np.flatnonzero((codes < 0) != null)[0])
        return [{"monitor": "c02.null_code", "sig": sig, "detail": f"{what}: row {i} null key={bool(null[i])} but code {int(codes[i])}"}]
    if codes.max(initial=-1) >= len(idx):
        return [{"monitor": "c02.codes", "sig": sig, "detail": f"{what}: code {int(codes.max())} with {len(idx)} labels"}]
    ok = ~null
    for j, a in enumerate(arrs):
        lab = idx.get_level_values(j) if idx.nlevels > 1 else idx
        lab = np.asarray(lab.astype(object)) if not str(lab.dtype).startswith("datetime") else lab.to_numpy().astype("datetime64[ns]").view("int64")
        mine = np.asarray(a.astype(object)) if isinstance(a, pd.Categorical) else a
        mine = mine.view("int64") if getattr(mine, "dtype", None) is not None and mine.dtype.kind == "M" else mine
        got = lab[codes[ok]]
        bad = np.flatnonzero(got != mine[ok])
        if len(bad):
            i = int(np.flatnonzero(ok)[bad[0]])
            return [{"monitor": "c02.label", "sig": sig, "detail": f"{what}: row {i} has key {mine[i]!r} in position {j} but its label says {got[bad[0]]!r}"}]
    if not idx.is_unique:
        return [{"monitor": "c02.distinct", "sig": sig, "detail": f"{what}: labels are not pairwise distinct"}]
    observed = len(np.unique(codes[ok]))
    if len(arrs) == 1 and not isinstance(arrs[0], pd.Categorical) and observed != case["L"][0] and not null.any():
        return [{"monitor": "c02.distinct", "sig": sig, "detail": f"{what}: {observed} codes in use"}]
    sizes = lib.call(gb.size)
    if lib.raised(sizes) or int(np.asarray(sizes).sum()) != int(ok.sum()):
        return [{"monitor": "c02.sizes", "sig": sig, "detail": f"{what}: sizes {sizes!r} do not add up to {int(ok.sum())} rows"}]
    bc, sz = np.bincount(codes[ok], minlength=len(idx)), np.asarray(sizes).astype("int64")
    if not np.array_equal(np.sort(bc[bc > 0]), np.sort(sz[sz > 0])):  # (a category left without a non-null row may or may not be listed)
        return [{"monitor": "c02.sizes", "sig": sig, "detail": f"{what}: per-group sizes differ from the code counts"}]
    ctx.count("many_label_cases")
    prod = int(np.prod([float(x) for x in case["L"]]))
    if len(arrs) > 1:
        ctx.count("multi_key_product_ge_5e8" if prod >= 500_000_000 else "multi_key_product_lt_5e8")
    if max(case["L"]) > 32767:
        ctx.count("labels_above_32767")
    return []


def required_counters(tier):
    return ["route:plain", "route:chunked_pointers", "route:monotonic_full", "route:sorted_prefix", "route:prechunked_arrow",
            "route:categorical", "route:bool", "route:range", "route:arrow", "route:multi_key", "null_first_key", "null_last_key",
            "direct_factorize_1d", "direct_factorize_2d", "direct_monotonic", "invariant_evaluations", "dictionary_array_keys", "per_chunk_dictionaries", "many_label_cases", "labels_above_32767", "multi_key_product_ge_5e8", "multi_key_product_lt_5e8"]


def features(case):
    f = [f"keys={'+'.join(k['kind'] for k in case['keys'])}|kc={'+'.join(case['kc'])}|sort={case['sort']}"]
    ks = case["keys"]
    if any(v is None for v in ks[0]["vals"]):
        f.append("null_first_key")
    if len(ks) > 1 and any(v is None for v in ks[-1]["vals"]):
        f.append("null_last_key")
    if len(ks) > 2 and any(v is None for v in ks[1]["vals"]):
        f.append("null_middle_key")
    return f


def nontrivial(case):
    lk = common.lkeys_ns(case["keys"])
    return len({k for k in lk if k is not None}) >= 2 and case["n"] >= 3


def _labels(index):
    return cmp.labels_of(index)


def check_codes(codes, labels, lk, what, fails, sig, n_key_cols):
    """I1-I4 on raw codes."""
    codes = [int(c) for c in codes]
    ng = len(labels)
    if len(codes) != len(lk):
        fails.append({"monitor": "c02.codes", "sig": sig, "detail": f"{what}: {len(codes)} codes for {len(lk)} rows"})
        return
    if len(set(labels)) != len(labels):
        fails.append({"monitor": "c02.labels_distinct", "sig": sig, "detail": f"{what}: labels not pairwise distinct: {labels}"})
        return
    for i, (c, k) in enumerate(zip(codes, lk)):
        if not (-1 <= c < ng):
            fails.append({"monitor": "c02.codes", "sig": sig, "detail": f"{what}: row {i} code {c} outside [-1, {ng})"})
            return
        if (c == -1) != (k is None):
            fails.append({"monitor": "c02.null_code", "sig": sig, "detail": f"{what}: row {i} key {k!r} has code {c} (labels {labels[:6]})"})
            return
        if c >= 0 and tuple(labels[c]) != tuple(k):
            fails.append({"monitor": "c02.label_of_code", "sig": sig, "detail": f"{what}: row {i} key {k!r} has code {c} whose label is {labels[c]!r}"})
            return


def check(case, ctx):
    from groupby_lib import GroupBy

    fails = []
    n = case["n"]
    lk = common.lkeys_ns(case["keys"])
    st = case.get("strategy")
    fam = "arrow" if any(x in gen.ARROW_FAMILY for x in case["kc"]) else "numpy"
    sig = f"{'multi' if len(case['keys']) > 1 else case['keys'][0]['kind']}|{fam}" + ("|scaled" if st else "")
    if st:
        lib.set_strategy(**st)
    try:
        keys_obj, _, _, _ = ops.build_inputs(dict(case, val=None))
        gb = lib.call(GroupBy, keys_obj, sort=case["sort"])
        if lib.raised(gb):
            return [{"monitor": "c02.raised", "sig": f"{sig}|construct|{type(gb.exc).__name__}", "detail": f"GroupBy(keys) raised {gb!r}"}]
        if "pa_dict" in case["kc"] or "pa_chunked_dict" in case["kc"]:
            ctx.count("dictionary_array_keys")
        if "pa_chunked_dict" in case["kc"]:
            ctx.count("per_chunk_dictionaries")
        chunked = bool(getattr(gb, "key_is_chunked", False))
        pointers = getattr(gb, "_group_key_pointers", None) is not None
        # ---- observed route
        k0 = case["keys"][0]
        if len(case["keys"]) > 1:
            ctx.count("route:multi_key")
        elif k0["kind"] == "cat":
            ctx.count("route:categorical")
        elif k0["kind"] == "range":
            ctx.count("route:range")
        elif chunked and pointers:
            ctx.count("route:chunked_pointers")
            if case["kc"][0] in ("pa_chunked", "pd_arrow_chunked", "pa_chunked_dict"):
                ctx.count("route:prechunked_arrow")
            if st and k0.get("layout") == "prefix":
                ctx.count("route:sorted_prefix")
        elif st and not chunked and n >= st.get("chunk_threshold", 1 << 60) and k0["kind"] != "bool" and case["kc"][0] in ("np", "pd", "pd_index"):
            ctx.count("route:monotonic_full")
        elif k0["kind"] == "bool":
            ctx.count("route:bool")
        elif case["kc"][0] in gen.ARROW_FAMILY:
            ctx.count("route:arrow")
        else:
            ctx.count("route:plain")
        labels = _labels(gb.result_index)
        ctx.count("invariant_evaluations")
        if gb.ngroups != len(labels):
            fails.append({"monitor": "c02.ngroups", "sig": sig, "detail": f"ngroups={gb.ngroups} but {len(labels)} labels"})
        if len(set(labels)) != len(labels):
            fails.append({"monitor": "c02.labels_distinct", "sig": sig, "detail": f"labels not pairwise distinct: {labels}"})
            return fails
        present = {k for k in lk if k is not None}
        if not present <= set(labels):
            fails.append({"monitor": "c02.labels", "sig": sig, "detail": f"keys without a label: {sorted(present - set(labels), key=repr)[:4]}; labels {labels[:8]}"})
            return fails
        extra = set(labels) - present
        if extra and not any(k["kind"] in ("cat", "bool") for k in case["keys"]):
            fails.append({"monitor": "c02.labels", "sig": sig, "detail": f"labels that no row carries: {sorted(extra, key=repr)[:4]}"})
            return fails
        # ---- raw codes when they are global
        if not (chunked and pointers):
            raw = gb.group_ikey
            raw = raw.to_numpy() if hasattr(raw, "to_numpy") and not isinstance(raw, np.ndarray) else np.asarray(raw)
            if raw.dtype.kind == "f":
                fails.append({"monitor": "c02.codes", "sig": sig, "detail": f"group codes have float dtype {raw.dtype}"})
                return fails
            check_codes(raw.tolist(), labels, lk, "group_ikey", fails, sig, len(case["keys"]))
            if fails:
                return fails
        # ---- groups: ascending positions, partition of the non-null rows
        g = lib.call(lambda: gb.groups)
        ref = model.group_rows(lk)
        if lib.raised(g):
            fails.append({"monitor": "c02.raised", "sig": f"{sig}|groups|{type(g.exc).__name__}", "detail": f"groups raised {g!r}"})
        else:
            got = {}
            for lab, pos in g.items():
                got[tuple(cmp.py(x) for x in lab) if isinstance(lab, tuple) else (cmp.py(lab),)] = [int(p) for p in pos]
            if got != ref:
                fails.append({"monitor": "c02.groups", "sig": sig, "detail": f"groups != ascending positions per label: got {dict(list(got.items())[:4])} expected {dict(list(ref.items())[:4])}"})
        # ---- sizes
        sz = lib.call(gb.size)
        if lib.raised(sz):
            fails.append({"monitor": "c02.raised", "sig": f"{sig}|size|{type(sz.exc).__name__}", "detail": f"size() raised {sz!r}"})
        else:
            smap = dict(zip(cmp.labels_of(sz.index), cmp.col_py(sz)))
            want = {k: len(v) for k, v in ref.items()}
            if smap != want:
                fails.append({"monitor": "c02.size", "sig": sig, "detail": f"size() {smap} != rows per label {want}"})
            if sum(smap.values()) != sum(k is not None for k in lk):
                fails.append({"monitor": "c02.size", "sig": sig, "detail": f"sizes add up to {sum(smap.values())}, non-null-key rows: {sum(k is not None for k in lk)}"})
        kc = lib.call(lambda: gb.key_count)
        if not lib.raised(kc):
            kmap = dict(zip(cmp.labels_of(kc.index), cmp.col_py(kc)))
            want = {l: len(ref.get(l, [])) for l in labels}
            if kmap != want:
                fails.append({"monitor": "c02.size", "sig": sig, "detail": f"key_count {kmap} != rows per label {want}"})
        # ---- effective partition through a transform (covers chunk-local codes)
        t = lib.call(gb.first, np.arange(n, dtype="int64"), transform=True)
        if lib.raised(t):
            fails.append({"monitor": "c02.raised", "sig": f"{sig}|transform|{type(t.exc).__name__}", "detail": f"first(arange, transform=True) raised {t!r}"})
        else:
            tv = cmp.col_py(t)
            for i, k in enumerate(lk):
                e = None if k is None else ref[k][0]
                if (e is None and not ops.is_neutral(tv[i], "first", "int64")) or (e is not None and tv[i] != e):
                    fails.append({"monitor": "c02.partition", "sig": sig, "detail": f"row {i} key {k!r}: first row of its group reported as {tv[i]!r}, expected {e!r}"})
                    break
    finally:
        if st:
            lib.reset_strategy()
    # ---- direct factorization calls
    if not fails and case.get("direct"):
        fails += check_direct(case, ctx, lk, sig)
    return fails


def check_direct(case, ctx, lk, sig):
    from groupby_lib.groupby import factorization as fz

    fails = []
    keys_obj, _, _, _ = ops.build_inputs(dict(case, val=None))
    keys = keys_obj if isinstance(keys_obj, list) else [keys_obj]
    sort = bool(case.get("direct_sort"))
    if len(keys) == 1:
        ctx.count("direct_factorize_1d")
        r = lib.call(fz.factorize_1d, keys[0], sort=sort)
        if lib.raised(r):
            return [{"monitor": "c02.raised", "sig": f"{sig}|factorize_1d|{type(r.exc).__name__}", "detail": f"factorize_1d raised {r!r}"}]
        codes, labels = r
        labs = _labels(pd.Index(labels) if not isinstance(labels, pd.Index) else labels)
        check_codes(np.asarray(codes).tolist(), labs, lk, f"factorize_1d(sort={sort})", fails, sig + "|factorize_1d", 1)
        if not fails and sort and case["keys"][0]["kind"] in ("int", "float", "str", "dt") and case["kc"][0] in ("np", "pd", "pd_index"):
            flat = [l[0] for l in labs]
            if flat != sorted(flat):
                fails.append({"monitor": "c02.sorted", "sig": sig + "|factorize_1d", "detail": f"factorize_1d(sort=True) labels not ascending: {flat}"})
        # monotonic fast path on the same column
        k0 = case["keys"][0]
        if k0["kind"] in ("int", "float", "dt") and case["kc"][0] in ("np", "pd", "pd_index", "pa_chunked", "pd_arrow_chunked") and case["n"] > 0:
            ctx.count("direct_monotonic")
            m = lib.call(fz.monotonic_factorization, keys[0])
            if lib.raised(m):
                if not any(v is None for v in k0["vals"]):
                    fails.append({"monitor": "c02.raised", "sig": f"{sig}|monotonic|{type(m.exc).__name__}", "detail": f"monotonic_factorization raised {m!r}"})
            else:
                cutoff, mcodes, mlabels = m
                cutoff = int(cutoff)
                ml = _labels(mlabels)
                pref = lk[:cutoff]
                if any(k is None for k in pref):
                    fails.append({"monitor": "c02.monotonic", "sig": sig, "detail": f"monotonic prefix of length {cutoff} contains a null key"})
                elif any(a > b for a, b in zip(pref, pref[1:])):
                    fails.append({"monitor": "c02.monotonic", "sig": sig, "detail": f"monotonic prefix of length {cutoff} is not sorted"})
                else:
                    check_codes(np.asarray(mcodes)[:cutoff].astype("int64").tolist(), ml, pref, "monotonic_factorization prefix", fails, sig + "|monotonic", 1)
                    if not fails and cutoff and [l[0] for l in ml] != sorted({k[0] for k in pref}):
                        fails.append({"monitor": "c02.monotonic", "sig": sig, "detail": f"monotonic labels {ml} != sorted distinct keys of the prefix"})
    else:
        ctx.count("direct_factorize_2d")
        r = lib.call(fz.factorize_2d, *keys, sort=sort)
        if lib.raised(r):
            return [{"monitor": "c02.raised", "sig": f"{sig}|factorize_2d|{type(r.exc).__name__}", "detail": f"factorize_2d raised {r!r}"}]
        codes, mi = r
        labs = _labels(mi)
        check_codes(np.asarray(codes).tolist(), labs, lk, f"factorize_2d(sort={sort})", fails, sig + "|factorize_2d", len(keys))
    return fails


def gen_case(rng, containers):
    n = int(rng.integers(1, 61))
    nkeys = gen.pick(rng, [1, 1, 1, 1, 2, 2, 3])
    kc = [gen.pick(rng, containers) for _ in range(nkeys)]
    keys = []
    for i in range(nkeys):
        kinds = ["int", "float", "str", "bool", "dt", "cat"]
        if kc[i] in gen.ARROW_FAMILY:
            kinds = ["int", "float", "str", "dt", "bool"]
        if kc[i] == "pd_index":
            kinds = ["int", "float", "str", "dt"]
        keys.append(gen.gen_key(rng, n, kind=gen.pick(rng, kinds), nlabels=int(rng.integers(1, 7)), name=gen.pick(rng, [None, f"k{i}"])))
        if kc[i] == "pa" and keys[-1]["kind"] in ("int", "float", "str") and rng.random() < 0.25:
            kc[i] = "pa_dict"
        if kc[i] == "pa_chunked" and keys[-1]["kind"] in ("int", "float", "str") and rng.random() < 0.3:
            kc[i] = "pa_chunked_dict"
    if nkeys == 1 and rng.random() < 0.05 and n > 1:
        step = int(gen.pick(rng, [1, 2, 3, -1, -2]))
        start = int(rng.integers(-5, 6))
        keys = [{"kind": "range", "start": start, "stop": start + step * n, "step": step, "vals": list(range(start, start + step * n, step)), "name": None}]
        kc = ["pd_index"]
    case = {"n": n, "keys": keys, "kc": kc, "sort": bool(rng.random() < 0.7), "mask": None, "val": {"dtype": "int64", "vals": []},
            "ksplits": gen.random_splits(rng, n, 5), "direct": bool(rng.random() < 0.4), "direct_sort": bool(rng.random() < 0.5)}
    if nkeys == 1 and keys[0]["kind"] not in ("cat", "range") and rng.random() < 0.45 and n >= 4:
        case["strategy"] = {"chunk_threshold": int(gen.pick(rng, [2, 4, 8, n])), "key_chunks": int(rng.integers(1, 6))}
    return case


def run(ctx):
    if ctx.shard == 100:
        rng = gen.rng_for(ctx.seed, "C02", 100)
        j = 0
        todo = []
        for L in MANY[ctx.tier]:
            for kind in (["int", "str", "cat", "float", "dt"] if (ctx.tier == "thorough" or L in (128, 256, 32768, 65536)) else [gen.pick(rng, ["int", "str", "cat", "float", "dt"])]):
                todo.append(([kind], [L], L + int(rng.integers(0, L // 2 + 2))))
        for L3 in ([(300, 300), (200, 200, 200), (800, 800, 800), (40000, 40000), (70000, 3)] + ([(1300, 1300, 1300), (128, 256), (32768, 2, 2)] if ctx.tier == "thorough" else [])):
            todo.append(([gen.pick(rng, ["int", "str", "cat", "float", "dt"]) for _ in L3], list(L3), max(L3) + int(rng.integers(100, 3000))))
        for kinds, L, n in todo:
            for sort in (True, False):
                j += 1
                case = {"many": True, "kinds": kinds, "L": L, "n": n, "sort": sort, "null_p": gen.pick(rng, [0.0, 0.02]), "seed": int(ctx.seed) * 10000 + j,
                        "noshrink": True, "keys": [], "kc": ["np"]}
                ctx.run_case(case, check_many, lambda c: [f"many|{'+'.join(c['kinds'])}|L={'x'.join(map(str, c['L']))}"], lambda c: True)
        return
    containers = KC_SHARDS[ctx.shard % len(KC_SHARDS)]
    rng = gen.rng_for(ctx.seed, "C02", ctx.shard, 1 if ctx.mode != "prod" else 0)
    ncases = N_CASES[ctx.tier] if ctx.mode == "prod" else max(50, N_CASES[ctx.tier] // 3)
    for _ in range(ncases):
        ctx.run_case(gen_case(rng, containers), check, features, nontrivial, common.shrink)
