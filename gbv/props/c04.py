"""C04 - block-wise reduction equals single-pass reduction (kernel contract): exhaustive small scope + sampling."""
import itertools
import zlib

import numpy as np

from .. import cmp, gen, lib, model, ops
from . import common

LEVEL = "exploration"
KERNELS = ["size", "count", "sum", "sum_squares", "mean", "min", "max", "first", "last"]
CLASSES = {
    # class -> (dtype, alphabet (None = null), kernels driven)
    "float": ("float64", [None, 1.5, -2.0], KERNELS),
    "int": ("int64", [0, 5, -7], KERNELS),
    "bool": ("bool", [True, False], KERNELS),
    "datetime": ("datetime64[ns]", [None, 1_700_000_000_000_000_123, 1_600_000_000_000_000_456], ["size", "count", "min", "max", "first", "last"]),
    "timedelta": ("timedelta64[us]", [None, 4, -9], ["size", "count", "sum", "mean", "min", "max", "first", "last"]),
}
CODE_ALPHABET = [-1, 0, 1, 2]
NGROUPS = 3
LMAX = {"quick": 3, "thorough": 4}
RULE = ("EXHAUSTIVE sub-space: all code sequences over {-1,0,1,2} x all value sequences over a 3-letter alphabet containing "
        "null (2 letters for bool), of every length 1..L (L=3 quick, 4 thorough), for each of 9 kernels and 5 dtype classes "
        "(float, int, bool, datetime, timedelta), under every n_threads in {1,2,3,4,L+1} and every composition of the rows "
        "into 2..4 consecutive blocks given as a chunked value array (each composition also with two masks drawn from the mask set "
        "below, one of them positional with >= 2 entries), plus every boolean mask, every in-range slice and "
        "every position sequence of length <= 2 (incl. negative and repeated) for lengths <= 2 (quick) / <= 3 (thorough) and 6 "
        "of them per call one length above; quick drives n_threads {2, L+1} at L=3. SAMPLED: lengths 5..64 with all 19 dtypes, "
        "random splits and masks, and lengths 5-6 over reduced alphabets. One evaluation = one kernel call compared with "
        "the per-group definition. distinct = distinct (kernel, dtype, codes, values, split/mask) tuples; non-trivial = "
        "length >= 2 with at least one non-negative code")
ASSUMPTIONS = [
    "the small alphabets keep all float sums exact, so equality is exact except for mean (1e-12 relative) and temporal mean (+-1 unit)",
    "an empty group reports 0 for sum/count/size and the dtype's null marker (NaN, NaT, signed min, unsigned max, False) otherwise",
    "chunked value arrays are presented as pyarrow ChunkedArray without Arrow-level nulls (floats carry NaN; temporal and bool "
    "classes use the n_threads route for sequences holding nulls), positional masks are in range",
    "exhaustive: true refers to the enumerated sub-space named in the rule, not to the sampled part",
]
NPARTS = {"float": 3, "int": 3, "timedelta": 3, "datetime": 2, "bool": 1}
SHARDS = [(c, part) for c in CLASSES for part in range(NPARTS[c])] + [("random", i) for i in range(3)]


def plan(tier):
    p = [dict(shard=i, nshards=len(SHARDS), mode="prod") for i in range(len(SHARDS))]
    p.append(dict(shard=0, nshards=len(SHARDS), mode="bounds"))
    p.append(dict(shard=len(SHARDS) - 1 - (0 if tier == "thorough" else 0), nshards=len(SHARDS), mode="bounds"))
    if tier == "thorough":
        p += [dict(shard=i, nshards=len(SHARDS), mode="bounds") for i in range(1, len(SHARDS) - 1)]
    return p


def required_counters(tier):
    return ["kernel_calls", "merge_law_calls", "mask_law_calls", "chunked_value_calls", "chunked_value_masked_calls", "chunked_value_unordered_position_calls", "group_empty_in_some_block", "group_allnull_in_some_block",
            "negative_code_rows", "return_count_checked"]


def _arr(dtype, vals):
    dt = np.dtype(dtype)
    if dt.kind == "f":
        return np.array([np.nan if v is None else v for v in vals], dtype=dt)
    if dt.kind in "mM":
        return np.array([gen.NAT if v is None else v for v in vals], dtype="int64").view(dt)
    return np.array(vals, dtype=dt)


def _kernel(name):
    import groupby_lib.groupby.numba as nbk

    return getattr(nbk, f"group_{name}")


def _expect(kernel, codes, vals, sel):
    """per-group expected value from the definition, on the selected (code, value) sequence."""
    per = [[] for _ in range(NGROUPS)]
    for i in sel:
        c = codes[i]
        if c >= 0:
            per[c].append(vals[i])
    return [model.reduce_group(g, kernel) for g in per], per


def _compare(kernel, dtype, got_arr, exp):
    got = cmp.col_py(np.asarray(got_arr))
    if len(got) != NGROUPS:
        return f"result has {len(got)} entries for {NGROUPS} groups"
    dt = np.dtype(dtype)
    for g in range(NGROUPS):
        a, e = got[g], exp[g]
        if kernel in ("size", "count"):
            ok = a == e
        elif kernel in ("sum", "sum_squares"):
            if dt.kind in "mM":
                ok = (a == e * gen.UNIT_NS[gen.dtype_unit(dtype)]) if e != 0 else (a == 0 or a is None)
            else:
                ok = (a is not None) and float(a) == float(e)
        elif kernel == "mean":
            if e is None:
                ok = cmp.is_null(a)
            elif dt.kind in "mM":
                m = gen.UNIT_NS[gen.dtype_unit(dtype)]
                ok = a is not None and abs(a - float(e) * m) <= m
            else:
                ok = a is not None and abs(float(a) - float(e)) <= 1e-12 * max(1.0, abs(float(e)))
        else:
            if e is None:
                ok = ops.is_neutral(a, kernel, np.asarray(got_arr).dtype)
            elif dt.kind in "mM":
                ok = a == e * gen.UNIT_NS[gen.dtype_unit(dtype)]
            elif dt.kind == "b":
                ok = a is not None and bool(a) == bool(e)
            else:
                ok = a is not None and float(a) == float(e)
        if not ok:
            return f"group {g}: kernel={a!r} definition={e!r}"
    return None


def _call(kernel, codes_a, vals_a, mask=None, n_threads=1, return_count=False):
    f = _kernel(kernel)
    if kernel == "size":
        return lib.call(f, group_key=codes_a, ngroups=NGROUPS, mask=mask, n_threads=n_threads)
    kw = {"return_count": True} if return_count else {}
    return lib.call(f, group_key=codes_a, values=vals_a, ngroups=NGROUPS, mask=mask, n_threads=n_threads, **kw)


def compositions(n, kmin=2, kmax=4):
    for k in range(kmin, min(kmax, n) + 1):
        for cuts in itertools.combinations(range(1, n), k - 1):
            yield list(cuts)


def all_masks(n):
    out = []
    for bits in itertools.product([False, True], repeat=n):
        out.append({"kind": "bool", "vals": list(bits)})
    bounds = [None] + list(range(-n, n + 1))
    seen = set()
    for a in bounds:
        for b in bounds:
            sel = tuple(range(n)[slice(a, b)])
            if (sel, a is None, b is None) in seen:
                continue
            seen.add((sel, a is None, b is None))
            out.append({"kind": "slice", "start": a, "stop": b, "step": None})
    for k in (1, 2):
        for p in itertools.product(range(-n, n), repeat=k):
            out.append({"kind": "pos", "vals": list(p)})
    out.append({"kind": "pos", "vals": []})
    return out


def check_one(sub, ctx=None):
    """one kernel call against the definition. sub = {kernel, dtype, codes, vals, mode: single|threads|chunks|mask, ...}"""
    kernel, dtype, codes, vals = sub["kernel"], sub["dtype"], sub["codes"], sub["vals"]
    n = len(codes)
    codes_a = np.array(codes, dtype=sub.get("code_dtype", "int64"))
    vals_a = _arr(dtype, vals)
    mspec = sub.get("mask")
    sel = gen.mask_selection(mspec, n)
    exp, per = _expect(kernel, codes, vals, sel)
    mask = gen.mask_obj(mspec)
    nt = sub.get("n_threads", 1)
    cuts = sub.get("cuts")
    v_in = vals_a
    if cuts is not None:
        import pyarrow as pa

        b = [0, *cuts, n]
        v_in = pa.chunked_array([pa.array(vals_a[x:y]) for x, y in zip(b, b[1:])])
    res = _call(kernel, codes_a, v_in, mask=mask, n_threads=nt, return_count=bool(sub.get("return_count")))
    what = f"group_{kernel}(dtype={dtype}, codes={codes}, values={vals}, mask={mspec}, n_threads={nt}, blocks={cuts})"
    if lib.raised(res):
        return {"monitor": "c04.raised", "sig": f"{kernel}|{np.dtype(dtype).kind}|{sub['mode']}|{type(res.exc).__name__}", "detail": f"{what} raised {res!r}"}
    cnt = None
    if sub.get("return_count") and kernel != "size":
        res, cnt = res
    d = _compare(kernel, dtype, res, exp)
    if d:
        return {"monitor": "c04." + ("definition" if sub["mode"] == "single" else ("mask" if sub["mode"] == "mask" else "merge")),
                "sig": f"{kernel}|{np.dtype(dtype).kind}|{sub['mode']}", "detail": f"{what}: {d}"}
    if cnt is not None and kernel not in ("last",):
        want = [len([v for v in g if v is not None]) if kernel != "size" else len(g) for g in per]
        got = [int(x) for x in np.asarray(cnt)]
        if ctx is not None:
            ctx.count("return_count_checked")
        if got != want and kernel not in ("sum",) or (kernel == "sum" and np.dtype(dtype).kind == "f" and got != want):
            if not (np.dtype(dtype).kind in "iub" and got == [len(g) for g in per]):
                return {"monitor": "c04.count", "sig": f"{kernel}|{np.dtype(dtype).kind}|{sub['mode']}", "detail": f"{what}: returned counts {got}, expected {want}"}
    return None


def _digest(ctx, *parts):
    import hashlib

    ctx.digests.add(hashlib.blake2b(repr(parts).encode(), digest_size=8).digest())


def check(case, ctx):
    """a case is either one stored sub-call (replay) or a whole enumeration block: {cls, L, codes, kernels}"""
    if case.get("kind") == "single":
        f = check_one(case["sub"], ctx)
        return [f] if f else []
    cls, L, codes = case["cls"], case["L"], case["codes"]
    dtype, alphabet, kernels = CLASSES[cls]
    kernels = [k for k in kernels if k in case["kernels"]]
    fails = []
    nonneg = any(c >= 0 for c in codes)
    mask_L = case.get("mask_L", 2)
    masks = all_masks(L) if L <= mask_L else []
    sampled_masks = all_masks(L) if (not masks and L <= mask_L + 1) else []
    has_arrow_null = lambda vals: np.dtype(dtype).kind in "mM" and any(v is None for v in vals)
    for vals in itertools.product(alphabet, repeat=L):
        vals = list(vals)
        for kernel in kernels:
            subs = [dict(mode="single")]
            for nt in (sorted({2, 3, 4, L + 1}) if case.get("all_threads", True) else sorted({2, L + 1})):
                subs.append(dict(mode="threads", n_threads=nt, return_count=(nt == 2)))
            if np.dtype(dtype).kind != "b" and not has_arrow_null(vals) and kernel != "size":
                for cuts in compositions(L):
                    subs.append(dict(mode="chunks", cuts=cuts))
                chunk_cuts = list(compositions(L))
            else:
                chunk_cuts = []
            for m in masks:
                subs.append(dict(mode="mask", mask=m))
            h = zlib.crc32(repr((codes, vals, kernel)).encode())
            for j in range(6 if sampled_masks else 0):
                subs.append(dict(mode="mask", mask=sampled_masks[(h + 7919 * j) % len(sampled_masks)]))
            pool = masks or sampled_masks
            if L >= 2 and pool:
                subs.append(dict(mode="mask", mask=pool[h % len(pool)], n_threads=2))
            # chunked values together with a mask: one mask of any kind and one positional mask (repeated / descending /
            # negative positions included) per composition of the rows into blocks
            pos_pool = [m for m in pool if m["kind"] == "pos" and len(m["vals"]) >= 2]
            for j, cuts in enumerate(chunk_cuts if pool else []):
                subs.append(dict(mode="chunks", cuts=cuts, mask=pool[(h + 104729 * (j + 1)) % len(pool)]))
                if pos_pool:
                    subs.append(dict(mode="chunks", cuts=cuts, mask=pos_pool[(h + 15485863 * (j + 1)) % len(pos_pool)]))
            for s in subs:
                sub = dict(s, kernel=kernel, dtype=dtype, codes=codes, vals=vals)
                ctx.counters["kernel_calls"] += 1
                if s["mode"] in ("threads", "chunks"):
                    ctx.counters["merge_law_calls"] += 1
                    if s["mode"] == "chunks" and s.get("mask"):
                        ctx.counters["chunked_value_masked_calls"] += 1
                        ctx.counters["chunked_value_unordered_position_calls"] += int(s["mask"]["kind"] == "pos" and sorted(set(s["mask"]["vals"])) != s["mask"]["vals"])
                    elif s["mode"] == "chunks":
                        ctx.counters["chunked_value_calls"] += 1
                        b = [0, *s["cuts"], L]
                        blocks = [(x, y) for x, y in zip(b, b[1:])]
                        for g in set(c for c in codes if c >= 0):
                            for x, y in blocks:
                                rows = [i for i in range(x, y) if codes[i] == g]
                                if not rows:
                                    ctx.counters["group_empty_in_some_block"] += 1
                                elif all(vals[i] is None for i in rows):
                                    ctx.counters["group_allnull_in_some_block"] += 1
                elif s["mode"] == "mask":
                    ctx.counters["mask_law_calls"] += 1
                if L >= 2 and nonneg:
                    _digest(ctx, kernel, dtype, codes, vals, s.get("n_threads"), s.get("cuts"), s.get("mask") and tuple(sorted(s["mask"].items(), key=repr)))
                f = check_one(sub, ctx)
                if f:
                    f["case"] = {"kind": "single", "sub": sub, "noshrink": True}
                    fails.append(f)
                    if len(fails) >= 3:
                        return fails
    ctx.counters["negative_code_rows"] += sum(c < 0 for c in codes)
    return fails


def features(case):
    if case.get("kind") == "single":
        return ["replay"]
    return [f"cls={case['cls']}|L={case['L']}"]


def nontrivial(case):
    return False  # distinct sub-calls are counted inside check()


RANDOM_DTYPES = [
    ["float32", "int32", "uint8", "datetime64[s]", "timedelta64[ns]", "uint64", "float64"],
    ["int16", "uint32", "datetime64[us]", "timedelta64[s]", "int64", "bool"],
    ["int8", "uint16", "datetime64[ms]", "timedelta64[us]", "datetime64[ns]", "float64"],
]


def random_sub(rng, dtypes=None):
    L = int(rng.integers(5, 65))
    dtype = gen.pick(rng, dtypes or gen.VALUE_DTYPES)
    dt = np.dtype(dtype)
    kernel = gen.pick(rng, KERNELS)
    if dt.kind == "M" and kernel in ("sum", "sum_squares", "mean"):
        kernel = "max"
    if dt.kind == "m" and kernel == "sum_squares":
        kernel = "sum"
    vs = gen.gen_vals(rng, L, dtype, magnitude="small" if dt.kind in "iuf" else None)
    vals = vs["vals"]
    if dt.kind == "f":
        vals = [None if v is None else float(np.round(v)) for v in vals]
    codes = [int(x) for x in rng.integers(-1, NGROUPS, size=L)]
    if rng.random() < 0.3:  # a group present only in the last block
        cut = int(L * 0.6)
        codes = [c if (c != 2 or i >= cut) else 0 for i, c in enumerate(codes)]
    sub = dict(kernel=kernel, dtype=dtype, codes=codes, vals=vals, code_dtype=gen.pick(rng, ["int64", "int64", "int32", "int16", "int8"]))
    r = rng.random()
    if r < 0.2:
        sub["mode"] = "single"
    elif r < 0.5:
        sub.update(mode="threads", n_threads=int(rng.integers(2, 9)), return_count=bool(rng.random() < 0.3))
    elif r < 0.7 and dt.kind not in "b" and not (dt.kind in "mM" and any(v is None for v in vals)) and kernel != "size":
        sub.update(mode="chunks", cuts=gen.random_splits(rng, L, 5) or [1])
        if rng.random() < 0.5:
            m = gen.gen_mask(rng, L, kind=gen.pick(rng, ["bool", "slice", "pos", "pos"]))
            if m is not None:
                sub["mask"] = m
    else:
        sub.update(mode="mask", mask=gen.gen_mask(rng, L, kind=gen.pick(rng, ["bool", "slice", "pos"])), n_threads=gen.pick(rng, [1, 1, 2, 3]))
        if sub["mask"] is None:
            sub["mode"] = "single"
    return sub


def run(ctx):
    cls, part = SHARDS[ctx.shard % len(SHARDS)]
    L_max = LMAX[ctx.tier] if ctx.mode == "prod" else 2
    if cls == "random":
        rng = gen.rng_for(ctx.seed, "C04", ctx.shard, 1 if ctx.mode != "prod" else 0)
        ncases = {"quick": 3000, "thorough": 40000}[ctx.tier] if ctx.mode == "prod" else 1000

        def chk(case, ctx):
            ctx.counters["kernel_calls"] += 1
            s = case["sub"]
            ctx.counters["merge_law_calls" if s["mode"] in ("threads", "chunks") else ("mask_law_calls" if s["mode"] == "mask" else "single_calls")] += 1
            f = check_one(s, ctx)
            return [f] if f else []

        for _ in range(ncases):
            sub = random_sub(rng, RANDOM_DTYPES[part % 3])
            ctx.run_case({"kind": "single", "sub": sub, "noshrink": True}, chk, lambda c: [f"random|{c['sub']['kernel']}|{c['sub']['dtype']}|{c['sub']['mode']}"],
                         lambda c: any(x >= 0 for x in c["sub"]["codes"]))
        # reduced alphabets, lengths 5 and 6 (thorough): codes {-1,0,1} x values {null, a}
        if ctx.tier == "thorough" and ctx.mode == "prod" and part == 0:
            for L in (5, 6):
                for codes in itertools.product([-1, 0, 1], repeat=L):
                    case = {"cls": "float", "L": L, "codes": list(codes), "kernels": ["sum", "min", "first", "last", "count"], "mask_L": -1, "reduced": True, "noshrink": True}
                    ctx.run_case(case, check_reduced, features, nontrivial)
        return
    dtype, alphabet, kernels = CLASSES[cls]
    mine = [k for j, k in enumerate(kernels) if j % NPARTS[cls] == part]
    for L in range(1, L_max + 1):
        for codes in itertools.product(CODE_ALPHABET, repeat=L):
            case = {"cls": cls, "L": L, "codes": list(codes), "kernels": mine, "mask_L": 2 if ctx.tier == "quick" else 3,
                    "all_threads": ctx.tier == "thorough" or L < 3, "noshrink": True}
            ctx.run_case(case, check, features, nontrivial)
    ctx.counters["exhaustive_L"] = L_max


def check_reduced(case, ctx):
    L, codes = case["L"], case["codes"]
    fails = []
    for vals in itertools.product([None, 1.5], repeat=L):
        for kernel in case["kernels"]:
            for s in (dict(mode="single"), dict(mode="threads", n_threads=2), dict(mode="threads", n_threads=3), dict(mode="threads", n_threads=4)):
                sub = dict(s, kernel=kernel, dtype="float64", codes=codes, vals=list(vals))
                ctx.counters["kernel_calls"] += 1
                ctx.counters["reduced_alphabet_calls"] += 1
                _digest(ctx, kernel, "float64", codes, vals, s.get("n_threads"))
                f = check_one(sub, ctx)
                if f:
                    f["case"] = {"kind": "single", "sub": sub, "noshrink": True}
                    return [f]
    return fails


def evidence_extra(agg):
    c = agg["counters"]
    return {"exhaustive": True, "exhaustive_scope": f"merge/definition law over all code and value sequences of the lengths named in the rule; kernel calls compared: {c.get('kernel_calls', 0)}",
            "evaluations": int(c.get("kernel_calls", 0)) or agg["n_eval"]}
