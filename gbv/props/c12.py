"""C12 - same data in any supported container or dtype gives the same answer (relational monitor across containers)."""
import numpy as np
import pandas as pd

from .. import cmp, gen, lib, model, ops
from . import common

LEVEL = "exploration"
RULE = ("seeded random logical datasets x every operation family; the all-NumPy call is the baseline and the same call is "
        "repeated with keys and values poured (independently) into pandas Series / Index / Categorical, Arrow-backed pandas "
        "(single and multi-chunk), polars, pyarrow arrays and chunked arrays with random chunk boundaries unrelated between "
        "keys and values; logical nulls are NaN/NaT in numpy and Arrow nulls in Arrow-family containers (incl. integer and "
        "boolean columns with nulls). Labels and numbers must agree with the baseline; min/max/first/last/cummin/cummax/"
        "shift/rolling extremes must be bit-equal to an input element and keep the input dtype (integer width, bool, "
        "timedelta, unit and time zone); integer sums must equal the exact Python sum. distinct = (case, container pair) "
        "digests; non-trivial = a non-numpy container took part and the data has >= 2 groups")
ASSUMPTIONS = [
    "integer or boolean data holding container-level nulls is logically float-with-NaN: numbers must agree, the dtype is not asserted there",
    "NaN inside Arrow/polars float columns is not driven as a null (those containers do not treat it as missing)",
    "tz-aware values exist only in pandas/Arrow/polars containers; their baseline is the numpy-backed pandas Series",
    "the NumPy baseline is tied to the definition by C01/C08/C09",
]
SELECTION_OPS = {"min", "max", "first", "last", "cummin", "cummax", "shift", "rolling_min", "rolling_max", "head", "tail", "nth"}
OPS = ops.RED * 2 + ["var", "std", "median", "quantile"] + ops.CUM + ops.ROLL + ops.SHIFT + ["ema"] + ops.SEL
N_CASES = {"quick": 280, "thorough": 2800}
KEYC = ["np", "pd", "pd_index", "pl", "pa", "pa_chunked", "pd_arrow", "pd_arrow_chunked"]
VALC = ["np", "pd", "pl", "pa", "pa_chunked", "pd_arrow", "pd_arrow_chunked"]


def plan(tier):
    return common.std_plan(tier)


def required_counters(tier):
    return ["pairs_compared", "misaligned_chunks", "arrow_null_values", "int_with_container_nulls", "tz_values", "membership_checked", "dtype_checked",
            "exact_int_sums"] + [f"vc:{c}" for c in VALC if c != "np"] + [f"kc:{c}" for c in KEYC if c != "np"]


def features(case):
    return common.std_features(case, [f"pair={'+'.join(p['kc'])}|{p['vc']}" for p in case["pairs"]])


def nontrivial(case):
    lk = common.lkeys_ns(case["keys"])
    return len({k for k in lk if k is not None}) >= 2


def _unit_tz(dtype_str):
    s = str(dtype_str)
    unit = None
    for u in ("ns", "us", "ms", "s"):
        if f"[{u}" in s:
            unit = u
            break
    tz = None
    if "tz=" in s:
        tz = s.split("tz=")[1].rstrip("]").split("]")[0].strip()
    elif "," in s and s.startswith("datetime64"):
        tz = s.split(",")[1].strip(" ]")
    elif "time_zone=" in s:
        t = s.split("time_zone=")[1].strip(")").strip("'\"")
        tz = None if t == "None" else t
    return unit, tz


def check_dtype(case, r, vc, fails, sig, ctx):
    """selection-type results keep the input dtype."""
    op = case["op"]
    if op not in SELECTION_OPS or r.raised is not None or isinstance(r.vals, dict):
        return
    vs = case["val"]
    dt = np.dtype(vs["dtype"])
    if vs.get("int_nulls"):
        return
    ctx.count("dtype_checked")
    rk = ops.dtype_kind(r.dtype)
    if dt.kind in "iu" and op in ("shift", "rolling_min", "rolling_max"):
        return  # documented float output for integer input
    if dt.kind == "b" and op in ("shift", "rolling_min", "rolling_max"):
        return
    has_null_out = any(cmp.is_null(v) for v in r.vals)
    if dt.kind in "iub":
        if rk != dt.kind and not (has_null_out and rk == "f"):
            fails.append({"monitor": "c12.dtype", "sig": f"{sig}|{dt.kind}", "detail": f"{op} of {vs['dtype']} ({vc}) returned dtype {r.dtype}"})
            return
        if rk in "iu":
            low = str(r.dtype).lower()
            width = "".join(ch for ch in low.split("[")[0] if ch.isdigit())
            if width and int(width) != dt.itemsize * 8:
                fails.append({"monitor": "c12.dtype", "sig": f"{sig}|{dt.kind}|width", "detail": f"{op} of {vs['dtype']} ({vc}) returned dtype {r.dtype}"})
    elif dt.kind == "f":
        if rk != "f":
            fails.append({"monitor": "c12.dtype", "sig": f"{sig}|f", "detail": f"{op} of {vs['dtype']} ({vc}) returned dtype {r.dtype}"})
        elif dt.itemsize == 4 and "32" not in str(r.dtype) and not str(r.dtype).startswith("float[") and op not in ("shift", "rolling_min", "rolling_max"):
            fails.append({"monitor": "c12.dtype", "sig": f"{sig}|f|width", "detail": f"{op} of float32 ({vc}) returned dtype {r.dtype}"})
    else:
        if rk != dt.kind:
            fails.append({"monitor": "c12.dtype", "sig": f"{sig}|{dt.kind}", "detail": f"{op} of {vs['dtype']} ({vc}) returned dtype {r.dtype}"})
            return
        unit, tz = _unit_tz(r.dtype)
        want_unit = gen.dtype_unit(vs["dtype"])
        if unit is not None and unit != want_unit and not (vc == "pl" and want_unit == "s"):
            fails.append({"monitor": "c12.dtype", "sig": f"{sig}|{dt.kind}|unit", "detail": f"{op} of {vs['dtype']} ({vc}) returned dtype {r.dtype}"})
        if vs.get("tz") and (tz or "") != vs["tz"]:
            fails.append({"monitor": "c12.dtype", "sig": f"{sig}|tz", "detail": f"{op} of tz-aware {vs['dtype']} tz={vs['tz']} ({vc}) returned dtype {r.dtype}"})


def check_members(case, r, vc, fails, sig, ctx):
    op = case["op"]
    if op not in SELECTION_OPS or r.raised is not None or isinstance(r.vals, dict):
        return
    dt = np.dtype(case["val"]["dtype"])
    if dt.kind in "iub" and op in ("shift", "rolling_min", "rolling_max"):
        return
    inputs = set(common.logical_vals(case["val"])) - {None}
    if dt.kind == "f":
        inputs = {float(np.dtype(dt).type(v)) for v in inputs}
    if case["val"].get("int_nulls"):
        inputs = {float(v) for v in inputs}  # logically float data
    ctx.count("membership_checked")
    for v in r.vals:
        if cmp.is_null(v) or ops.is_neutral(v, op, r.dtype):
            continue
        if (float(v) if case["val"].get("int_nulls") else v) not in inputs:
            fails.append({"monitor": "c12.member", "sig": f"{sig}|{dt.kind}", "detail": f"{op} of {case['val']['dtype']} ({vc}): result {v!r} is not an element of the input"})
            return


def baseline_case(case):
    c = dict(case)
    vs = dict(case["val"])
    if vs.get("int_nulls"):
        vs = dict(vs, dtype="float64", vals=[None if v is None else float(v) for v in vs["vals"]])
        vs.pop("arrow_nulls", None)
    c["val"] = vs
    c["kc"] = ["np"] * len(case["keys"])
    c["vc"] = "pd" if vs.get("tz") else "np"
    c["index"] = None
    if c.get("mask") is not None and c["mask"]["kind"] == "bool_series":
        c["mask"] = dict(c["mask"], kind="bool")
    return c


def _diff(case, a, b, tol, what):
    op = case["op"]
    kind = ops.KIND[op]
    nz = op in ("var", "std")
    if (a.raised is None) != (b.raised is None):
        return f"{what}: numpy baseline {'raised ' + repr(a.raised) if a.raised is not None else 'returned'}, container variant {'raised ' + repr(b.raised) if b.raised is not None else 'returned'}"
    if a.raised is not None:
        return None
    if kind == "red":
        return ops.diff_red(a, b, tol, what=what, nullzero=nz)
    if kind == "row":
        if isinstance(a.vals, dict) or isinstance(b.vals, dict):
            return f"{what}: shape differs"
        return ops.diff_rows(a.vals, b.vals, tol, what=what, nullzero=nz)
    # the order between groups is free (C15): compare the selected rows as a multiset
    key = lambda v: (v is None, repr(type(v).__name__ == "str"), v if v is not None else 0)
    x, y = sorted(a.vals, key=key), sorted(b.vals, key=key)
    if len(x) != len(y) or any(not ops.same_value(p, q, 0) for p, q in zip(x, y)):
        return f"{what}: selected values differ {x[:5]} vs {y[:5]}"
    return None


def check(case, ctx):
    fails = []
    op, n = case["op"], case["n"]
    dk = np.dtype(case["val"]["dtype"]).kind
    tol = ops.float_tol(op, case["val"], n)
    if op == "ema":
        tol = 1e-12 * max([abs(float(v)) for v in case["val"]["vals"] if v is not None] + [1.0])
    base = ops.execute(baseline_case(case))
    check_dtype(case, base, "np", fails, f"{op}|np", ctx)
    check_members(case, base, "np", fails, f"{op}|np", ctx)
    # exact integer sums
    if op == "sum" and dk in "iu" and base.raised is None and not case["val"].get("int_nulls"):
        lk = common.lkeys_ns(case["keys"])
        sel = gen.mask_selection(case["mask"], n)
        ref = model.reductions(lk, case["val"]["vals"], sel, "sum")
        lo, hi = (0, 2**64 - 1) if dk == "u" else (-(2**63), 2**63 - 1)
        if all(lo <= v <= hi for v in ref.values()):
            ctx.count("exact_int_sums")
            got = base.as_map()
            for k, v in ref.items():
                if got.get(k) != v:
                    fails.append({"monitor": "c12.int_sum", "sig": f"sum|{case['val']['dtype']}", "detail": f"sum of {case['val']['dtype']} label {k!r}: library={got.get(k)!r} exact={v}"})
                    break
    if case["val"].get("tz"):
        ctx.count("tz_values")
    for p in case["pairs"]:
        c2 = dict(case, kc=p["kc"], vc=p["vc"], ksplits=p.get("ksplits"), vsplits=p.get("vsplits"))
        if p["vc"] not in ("pd",) and not all(k in ("pd",) for k in p["kc"]):
            c2["index"] = None
        if c2.get("mask") is not None and c2["mask"]["kind"] == "bool_series" and (p["vc"] != "pd"):
            c2["mask"] = dict(c2["mask"], kind="bool")
        r = ops.execute(c2)
        ctx.count("pairs_compared")
        ctx.count(f"vc:{p['vc']}")
        for kc in set(p["kc"]):
            ctx.count(f"kc:{kc}")
        if p.get("ksplits") and p.get("vsplits") and p["ksplits"] != p["vsplits"] and "chunked" in p["vc"] and any("chunked" in k for k in p["kc"]):
            ctx.count("misaligned_chunks")
        if case["val"].get("arrow_nulls") and p["vc"] in gen.ARROW_FAMILY:
            ctx.count("arrow_null_values")
            if case["val"].get("int_nulls"):
                ctx.count("int_with_container_nulls")
        import hashlib

        ctx.digests.add(hashlib.blake2b(repr((case["pseed"], p["kc"], p["vc"])).encode(), digest_size=8).digest())
        kfam = "arrow" if any(x in gen.ARROW_FAMILY for x in p["kc"]) else "numpy"
        vfam = "arrow" if p["vc"] in gen.ARROW_FAMILY else "numpy"
        sig = f"{ops.KIND[op] if op not in ops.RED else op}|{dk}|k={kfam}|v={vfam}"
        d = _diff(case, base, r, tol, f"{op}: numpy vs keys={p['kc']} values={p['vc']}")
        if d:
            mon = "c12.raised" if "raised" in d and "returned" in d else "c12.container"
            fails.append({"monitor": mon, "sig": sig, "detail": d, "pair": p})
            continue
        check_dtype(case, r, p["vc"], fails, f"{op}|{p['vc']}", ctx)
        check_members(case, r, p["vc"], fails, f"{op}|{p['vc']}", ctx)
    return fails


def gen_case(rng, dtypes):
    case = common.gen_opcase(rng, OPS, dtypes, mask_kinds=None, index_p=0.0, nkeys_pool=(1, 1, 1, 2),
                             key_kinds=["int", "float", "str", "dt", "bool", "int"])
    n = case["n"]
    vs = case["val"]
    dt = np.dtype(vs["dtype"])
    op = case["op"]
    if dt.kind in "fiub" and rng.random() < 0.5:
        vs["arrow_nulls"] = True
        if dt.kind in "iub" and op not in ("ema",) and rng.random() < 0.4 and n > 2:
            for i in range(n):
                if rng.random() < 0.2:
                    vs["vals"][i] = None
            if any(v is None for v in vs["vals"]):
                vs["int_nulls"] = True
                small = gen.gen_vals(rng, n, vs["dtype"], magnitude="small")["vals"]  # exactly representable as float64
                vs["vals"] = [None if v is None else s for v, s in zip(vs["vals"], small)]
    pairs = []
    for _ in range(3):
        kc = []
        for k in case["keys"]:
            c = gen.pick(rng, KEYC)
            if k["kind"] == "bool" and c in ("pd_index",):
                c = "pd"
            kc.append(c)
        vc = gen.pick(rng, VALC)
        if vs.get("tz") and vc == "np":
            vc = "pd"
        if vs.get("int_nulls") and vc not in gen.ARROW_FAMILY:
            vc = gen.pick(rng, ["pa", "pl", "pd_arrow", "pa_chunked"])
        if dt.kind in "mM" and gen.dtype_unit(vs["dtype"]) == "s" and vc == "pl":
            vc = "pa"  # polars has no second resolution
        if op == "ema" and vc in ("pa", "pa_chunked"):
            vc = "pd_arrow"
        pairs.append({"kc": kc, "vc": vc, "ksplits": gen.random_splits(rng, n, 4), "vsplits": gen.random_splits(rng, n, 4)})
    case["pairs"] = pairs
    case["index"] = None
    case["pseed"] = int(rng.integers(1 << 30))
    return case


def run(ctx):
    dtypes = common.ALL_DTYPE_SHARDS[ctx.shard % len(common.ALL_DTYPE_SHARDS)]
    rng = gen.rng_for(ctx.seed, "C12", ctx.shard, 1 if ctx.mode != "prod" else 0)
    ncases = N_CASES[ctx.tier] if ctx.mode == "prod" else max(40, N_CASES[ctx.tier] // 3)
    for _ in range(ncases):
        ctx.run_case(gen_case(rng, dtypes), check, features, nontrivial, common.shrink)


def evidence_extra(agg):
    c = agg["counters"]
    return {"evaluations": int(agg["n_eval"] + c.get("pairs_compared", 0)), "logical_cases": agg["n_eval"],
            "container_matrix": {k: v for k, v in c.items() if k.startswith(("vc:", "kc:"))}}
