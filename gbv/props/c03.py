"""C03 - results do not depend on the execution strategy (relational monitor across strategies and schedules)."""
import numpy as np
import pandas as pd

from .. import cmp, gen, lib, model, ops
from . import common

LEVEL = "exploration"
RULE = ("seeded random logical calls (reductions incl. var/std, transform, cumulative, rolling, shift/diff, EMA, head/tail/nth) "
        "executed under a baseline strategy (1 thread, whole-array factorization, contiguous numpy inputs, no jitter) and "
        "under each of: 2-4 kernel threads, chunk-wise key factorization with 1-5 chunks (scaled threshold), sorted and "
        "sorted-prefix keys (monotonic routes), Arrow-chunked keys, Arrow-chunked values with boundaries unrelated to the key "
        "chunks, and 3 seeded jitter schedules of the thread-pool tasks. Results must be identical (sum/mean/var/std/ema to "
        "rounding). The parallel_map observer logs the completion order of every multi-task call and asserts index-wise "
        "gathering. Real-size block: unscaled inputs of 999999 / 1000000 / 1000001 / 2000000+ rows against pandas. "
        "distinct = case digests x strategy; non-trivial = >= 2 groups and some block of rows lacks some group")
ASSUMPTIONS = [
    "the baseline strategy is tied to the definition by C01/C08/C09/C10, so a defect common to all strategies is not hidden",
    "strategy overrides scale only the numbers that decide the route (threshold, rows per thread, chunk count); the code run is the repository's",
    "jitter is a sub-millisecond sleep before a task body (between tasks, not inside a lock)",
]
RED = ops.RED + ["var", "std"]
OPS = RED * 3 + ops.CUM + ops.ROLL + ops.SHIFT + ["ema"] + ops.SEL
N_CASES = {"quick": 260, "thorough": 2400}
REAL_N = [999_999, 1_000_000, 1_000_001, 2_000_000, 3_000_000, 4_000_001]


def plan(tier):
    p = common.std_plan(tier)
    p.append(dict(shard=100, nshards=1, mode="prod"))
    if tier == "thorough":
        p.append(dict(shard=101, nshards=1, mode="prod"))
        p.append(dict(shard=102, nshards=1, mode="prod"))
    return p


def required_counters(tier):
    return ["strategy:threads", "strategy:chunked", "strategy:monotonic", "strategy:arrow_chunked_keys", "strategy:arrow_chunked_values",
            "strategy:jitter", "observed_chunked_keys", "observed_multi_thread", "block_lacks_group", "real_size_cases", "transform_compared"]


def inconclusive(agg):
    """>= 2 distinct completion orders must have been seen at the multi-task call sites that were exercised often."""
    out = []
    sites = {}
    for (site, n, perm), c in agg["pm_events"].items():
        s = sites.setdefault((site, n), {"calls": 0, "orders": set()})
        s["calls"] += c
        s["orders"].add(perm)
    multi = [k for k, v in sites.items() if v["calls"] >= 200]
    if not multi:
        out.append("no parallel_map call site was exercised 200 times")
    for k in multi:
        if len(sites[k]["orders"]) < 2:
            out.append(f"parallel_map site {k[0]}/{k[1]} tasks: only one completion order observed in {sites[k]['calls']} calls")
    return out


def features(case):
    if case.get("real"):
        return [f"real|n={case['n']}|{case['layout']}|{case['dtype']}"]
    f = common.std_features(case)
    lk = common.lkeys_ns(case["keys"])
    n = case["n"]
    labels = {k for k in lk if k is not None}
    for parts in (2, 3, 4):
        for blk in np.array_split(np.arange(n), parts):
            if labels and {lk[i] for i in blk if lk[i] is not None} != labels:
                f.append("block_lacks_group")
                return f
    return f


def nontrivial(case):
    if case.get("real"):
        return True
    return "block_lacks_group" in features(case) and len({k for k in common.lkeys_ns(case["keys"]) if k is not None}) >= 2


def _exec(case, strategy, jitter=None, transform=False, **over):
    lib.set_jitter(jitter)
    if strategy:
        lib.set_strategy(**strategy)
    try:
        keys_obj, val, mask, idx = ops.build_inputs(case, **over)
        gb = ops.make_gb(keys_obj, sort=case.get("sort", True))
        if lib.raised(gb):
            r = ops.Res(); r.raised = gb; r.kind = ops.KIND[case["op"]]
            return r, None
        obs = {"chunked": bool(getattr(gb, "key_is_chunked", False)), "threads": int(getattr(gb, "_max_threads_for_numba", 1))}
        times = ops.times_obj(case["times"], idx) if case.get("times") is not None else None
        raw = ops.call_op(gb, case["op"], case.get("params"), val, mask, transform=transform, times=times)
        return ops.normalise(raw, "row" if transform else ops.KIND[case["op"]]), obs
    finally:
        lib.reset_strategy()
        lib.set_jitter(None)


def _diff(case, a, b, tol, transform, what):
    op = case["op"]
    nz = op in ("var", "std")
    if (a.raised is None) != (b.raised is None):
        return f"{what}: baseline {'raised ' + repr(a.raised) if a.raised is not None else 'returned'}, variant {'raised ' + repr(b.raised) if b.raised is not None else 'returned'}"
    if a.raised is not None:
        return None
    kind = "row" if transform else ops.KIND[op]
    if kind == "red":
        return ops.diff_red(a, b, tol, what=what, nullzero=nz)
    if kind == "row":
        return ops.diff_rows(a.vals, b.vals, tol, what=what, nullzero=nz)
    x, y = list(zip(a.index, a.vals)), list(zip(b.index, b.vals))
    if len(x) != len(y) or any(p[0] != q[0] or not ops.same_value(p[1], q[1], 0) for p, q in zip(x, y)):
        return f"{what}: selected rows differ {x[:5]} vs {y[:5]}"
    return None


def check(case, ctx):
    if case.get("real"):
        return check_real(case, ctx)
    fails = []
    op, n = case["op"], case["n"]
    dk = np.dtype(case["val"]["dtype"]).kind
    tol = ops.float_tol(op, case["val"], n)
    if op == "ema":
        tol = 1e-12 * max([abs(float(v)) for v in case["val"]["vals"] if v is not None] + [1.0])
    transform = bool(case.get("transform")) and op in ops.TRANSFORMABLE
    base, _ = _exec(case, None, transform=transform)
    for v in case["variants"]:
        name = v["name"]
        over = {}
        if name == "arrow_chunked_keys":
            over = {"kc": ["pa_chunked"] * len(case["keys"]), "ksplits": v["splits"]}
        elif name == "arrow_chunked_values":
            over = {"vc": "pa_chunked", "vsplits": v["splits"], "index": None}
            if v.get("strategy"):
                pass
        if name in ("arrow_chunked_values",) and case.get("index") is not None:
            over["index"] = None
        r, obs = _exec(case, v.get("strategy"), jitter=v.get("jitter"), transform=transform, **over)
        ctx.count(f"strategy:{name}")
        if obs:
            if obs["chunked"]:
                ctx.count("observed_chunked_keys")
            if obs["threads"] > 1:
                ctx.count("observed_multi_thread")
        if transform:
            ctx.count("transform_compared")
        d = _diff(case, base, r, tol, transform, f"{op}{'(transform)' if transform else ''}: baseline vs {name} {v.get('strategy') or ''}")
        if d:
            if base.raised is not None and r.raised is None:
                mon = "c03.baseline_raised"
            else:
                mon = "c03.strategy"
            fails.append({"monitor": mon, "sig": f"{op}|{dk}|{name}", "detail": d})
    return fails


def gen_case(rng, dtypes):
    case = common.gen_opcase(rng, OPS, dtypes, nmax=60, mask_kinds=None, index_p=0.3, nkeys_pool=(1, 1, 1, 1, 2),
                             key_kinds=["int", "float", "str", "dt", "int", "float"], timed_p=0.3)
    n = case["n"]
    op = case["op"]
    case["transform"] = bool(rng.random() < 0.3)
    single = len(case["keys"]) == 1
    vs = []
    if op in RED:
        vs.append({"name": "threads", "strategy": {"rows_per_thread": max(1, n // int(rng.integers(1, 4)))}})
    if single and n >= 2:
        vs.append({"name": "chunked", "strategy": {"chunk_threshold": int(gen.pick(rng, [2, 4, n])), "key_chunks": int(rng.integers(1, 6))}})
        if case["keys"][0]["layout"] in ("sorted", "prefix") or rng.random() < 0.2:
            vs.append({"name": "monotonic", "strategy": {"chunk_threshold": 2, "key_chunks": int(rng.integers(2, 5))}})
        if case["keys"][0]["kind"] != "cat":
            vs.append({"name": "arrow_chunked_keys", "splits": gen.random_splits(rng, n, 5), "strategy": None})
    dtk = np.dtype(case["val"]["dtype"]).kind
    if op in ops.RED and op != "size" and case["val"].get("tz") is None and dtk != "b" and not (dtk in "mM" and any(v is None for v in case["val"]["vals"])) \
            and (case["mask"] is None or case["mask"]["kind"] in ("bool", "slice")):
        st = {"chunk_threshold": 2, "key_chunks": int(rng.integers(2, 5))} if single and rng.random() < 0.5 else None
        vs.append({"name": "arrow_chunked_values", "splits": gen.random_splits(rng, n, 5), "strategy": st})
    js = {"chunk_threshold": 2, "key_chunks": int(rng.integers(2, 5)), "rows_per_thread": max(1, n // 3)} if single else {"rows_per_thread": max(1, n // 3)}
    for j in range(3):
        vs.append({"name": "jitter", "strategy": js, "jitter": int(rng.integers(1 << 30))})
    if case["mask"] is not None and case["mask"]["kind"] == "bool_series" and case["vc"] != "pd":
        case["mask"]["kind"] = "bool"
    case["variants"] = vs
    return case


# ------------------------------------------------------------------ real thresholds


def check_real(case, ctx):
    from groupby_lib import GroupBy

    n, layout, dtype = case["n"], case["layout"], case["dtype"]
    rng = np.random.Generator(np.random.PCG64(case["seed"]))
    ng = case["ngroups"]
    if layout == "sorted":
        k = np.sort(rng.integers(0, ng, size=n))
    elif layout == "block":
        k = rng.integers(0, ng - 1, size=n)
        k[int(n * 0.8):] = rng.integers(0, ng, size=n - int(n * 0.8))
        k[-1] = ng - 1
    elif layout == "prefix":
        k = rng.integers(0, ng, size=n)
        cut = int(n * 0.5)
        k[:cut] = np.sort(k[:cut])
    else:
        k = rng.integers(0, ng, size=n)
    keys = k.astype("int64") if case["keykind"] == "int" else k.astype("float64")
    if case["keykind"] == "float_nan":
        keys = k.astype("float64")
        keys[rng.random(n) < 0.01] = np.nan
    if dtype == "float64":
        v = np.round(rng.normal(0, 100, size=n), 2)
        v[rng.random(n) < 0.05] = np.nan
    elif dtype == "int64":
        v = rng.integers(-1000, 1000, size=n)
    else:
        v = (rng.integers(0, 10**9, size=n) + 1_600_000_000 * 10**9).view("M8[ns]")
    fails = []
    ctx.count("real_size_cases")
    gb = lib.call(GroupBy, keys)
    if lib.raised(gb):
        return [{"monitor": "c03.real", "sig": f"construct|{layout}", "detail": f"GroupBy on {n} {layout} keys raised {gb!r}"}]
    ctx.count("observed_chunked_keys" if getattr(gb, "key_is_chunked", False) else "real_unchunked")
    if int(getattr(gb, "_max_threads_for_numba", 1)) > 1:
        ctx.count("observed_multi_thread")
    s = pd.Series(v)
    pg = s.groupby(pd.Series(keys))
    vals2 = [v, v] if case.get("two_columns") else v
    for op in case["ops"]:
        if dtype.startswith("datetime") and op in ("sum", "mean"):
            continue
        res = lib.call(getattr(gb, op), vals2) if op != "size" else lib.call(gb.size)
        if lib.raised(res):
            fails.append({"monitor": "c03.real", "sig": f"{op}|{layout}|raised", "detail": f"{op} on {n} rows ({layout}, {dtype}) raised {res!r}"})
            continue
        if isinstance(res, pd.DataFrame):
            res = res.iloc[:, 1]
        exp = getattr(pg, op)() if op != "size" else pg.size()
        got = res.reindex(exp.index)
        if len(res) != len(exp):
            fails.append({"monitor": "c03.real", "sig": f"{op}|{layout}|labels", "detail": f"{op} n={n} {layout}: {len(res)} labels, pandas has {len(exp)}"})
            continue
        a, b = got.to_numpy(), exp.to_numpy()
        if a.dtype.kind in "mM":
            a, b = a.astype("M8[ns]").view("int64"), b.astype("M8[ns]").view("int64")
        a, b = a.astype("float64"), b.astype("float64")
        bad = ~((np.isnan(a) & np.isnan(b)) | (np.abs(a - b) <= 1e-6 * np.maximum(1.0, np.abs(b))))
        if bad.any():
            i = int(np.flatnonzero(bad)[0])
            fails.append({"monitor": "c03.real", "sig": f"{op}|{layout}|value", "detail": f"{op} n={n} layout={layout} dtype={dtype} keys={case['keykind']}: label {exp.index[i]!r}: library={a[i]!r} pandas={b[i]!r}; {int(bad.sum())}/{len(b)} labels differ"})
    return fails


def real_cases(tier, seed, shard):
    rng = gen.rng_for(seed, "C03", shard, 7)
    out = []
    if tier == "quick":
        combos = [(1_000_000, "sorted", "float64", "int"), (1_000_001, "block", "int64", "int")]
    else:
        combos = []
        for j, n in enumerate(REAL_N):
            for layout in (["sorted", "block", "prefix", "mixed"] if shard == 100 else ["block", "mixed"]):
                combos.append((n, layout, ["float64", "int64", "datetime64[ns]"][(j + len(combos) + shard) % 3], ["int", "float", "float_nan"][(j + len(combos)) % 3]))
        combos = [c for i, c in enumerate(combos) if i % 3 == (shard - 100)] if shard > 100 else combos[::2]
    for j, (n, layout, dtype, keykind) in enumerate(combos):
        out.append({"real": True, "n": n, "layout": layout, "dtype": dtype, "keykind": keykind, "ngroups": int(gen.pick(rng, [5, 300, 40])),
                    "ops": ["sum", "mean", "min", "max", "first", "last", "count", "size"], "two_columns": bool(j % 2),
                    "seed": int(seed) * 1000 + shard + j, "noshrink": True, "keys": [], "val": {"dtype": dtype, "vals": []}, "mask": None, "op": "real"})
    return out


def run(ctx):
    if ctx.shard >= 100:
        for case in real_cases(ctx.tier, ctx.seed, ctx.shard):
            ctx.run_case(case, check, features, nontrivial)
        return
    dtypes = common.ALL_DTYPE_SHARDS[ctx.shard % len(common.ALL_DTYPE_SHARDS)]
    rng = gen.rng_for(ctx.seed, "C03", ctx.shard, 1 if ctx.mode != "prod" else 0)
    ncases = N_CASES[ctx.tier] if ctx.mode == "prod" else max(30, N_CASES[ctx.tier] // 3)
    for _ in range(ncases):
        ctx.run_case(gen_case(rng, dtypes), check, features, nontrivial, common.shrink)
