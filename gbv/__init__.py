"""gbv - runtime monitoring harness for groupby-lib (see /verif/DESIGN.md)."""
