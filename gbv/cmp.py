"""Normalisation of library results to Python scalars, comparison rules, input snapshots."""
import datetime as _dt
import hashlib
import math

import numpy as np
import pandas as pd

from .gen import NAT, UNIT_NS

EPS = {"float64": 2.0**-52, "float32": 2.0**-23}


def py(x):
    """library scalar -> Python scalar; None for every kind of null; temporal -> int nanoseconds."""
    if x is None or x is pd.NaT or x is pd.NA:
        return None
    if isinstance(x, (bool, np.bool_)):
        return bool(x)
    if isinstance(x, (int, np.integer)):
        return int(x)
    if isinstance(x, (float, np.floating)):
        return None if math.isnan(x) else float(x)
    if isinstance(x, pd.Timestamp):
        return int(x.value)
    if isinstance(x, pd.Timedelta):
        return int(x.value)
    if isinstance(x, (np.datetime64, np.timedelta64)):
        if np.isnat(x):
            return None
        unit = np.datetime_data(x.dtype)[0]
        return int(x.astype("int64")) * UNIT_NS[unit]
    if isinstance(x, _dt.datetime):
        return int(pd.Timestamp(x).value)
    if isinstance(x, _dt.timedelta):
        return int(pd.Timedelta(x).value)
    if isinstance(x, str):
        return x
    if isinstance(x, tuple):
        return tuple(py(v) for v in x)
    return x


def col_py(col):
    """1-D result (pandas / polars / numpy) -> list of Python scalars (temporal -> int ns)."""
    if isinstance(col, pd.Series):
        dt = col.dtype
        if isinstance(dt, np.dtype):
            return col_py(col.to_numpy())
        if isinstance(dt, pd.DatetimeTZDtype):
            return col_py(col.dt.tz_convert("UTC").dt.tz_localize(None).to_numpy())
        return [py(v) for v in col.tolist()]
    if isinstance(col, pd.Index):
        return col_py(pd.Series(col))
    if isinstance(col, np.ndarray):
        if col.dtype.kind in "mM":
            unit = np.datetime_data(col.dtype)[0]
            m = UNIT_NS[unit]
            return [None if v == NAT else int(v) * m for v in col.view("int64").tolist()]
        if col.dtype.kind == "f":
            return [None if math.isnan(v) else float(v) for v in col.astype("float64").tolist()]
        return [py(v) for v in col.tolist()]
    if hasattr(col, "to_list"):  # polars
        tn = type(col.dtype).__name__
        if tn in ("Datetime", "Duration"):
            m = UNIT_NS[getattr(col.dtype, "time_unit", "us") or "us"]
            return [None if v is None else int(v) * m for v in col.to_physical().to_list()]
        return [py(v) for v in col.to_list()]
    return [py(v) for v in list(col)]


def labels_of(index):
    """pandas Index -> list of label tuples of Python scalars."""
    if isinstance(index, pd.MultiIndex):
        return [tuple(py(v) for v in t) for t in index.tolist()]
    return [(py(v),) for v in index.tolist()]


def series_map(res):
    """reduction result (Series) -> {label tuple: value}; raises on duplicate labels."""
    labs = labels_of(res.index)
    vals = col_py(res)
    out = {}
    for l, v in zip(labs, vals):
        if l in out:
            raise ValueError(f"duplicate label {l!r} in result index")
        out[l] = v
    return out


def dtype_tag(obj):
    dt = getattr(obj, "dtype", None)
    return str(dt)


# ------------------------------------------------------------------ comparison


def is_null(v):
    return v is None or (isinstance(v, float) and math.isnan(v))


def close(lib, ref, tol):
    """lib: Python scalar from the library; ref: exact/reference value (Fraction, int, float, None)."""
    if is_null(ref):
        return is_null(lib)
    if is_null(lib):
        return False
    if isinstance(ref, bool) or isinstance(lib, bool):
        return bool(lib) == bool(ref)
    if isinstance(ref, str) or isinstance(lib, str):
        return lib == ref
    if tol == 0:
        return lib == ref
    d = abs(float(lib) - float(ref)) if not isinstance(lib, int) or not isinstance(ref, int) else abs(lib - ref)
    return d <= tol or (math.isinf(float(ref)) and float(lib) == float(ref))


def sum_tol(n, abs_sum, dtype):
    """rounding bound for a floating sum of n terms: 4 (n+2) eps sum|x| (eps of the *input* dtype)."""
    eps = EPS.get(dtype, EPS["float64"])
    return 4.0 * (n + 2) * eps * abs_sum + 1e-300


# ------------------------------------------------------------------ snapshots (C19)


def _buffers(obj, out, depth=0):
    """collect (tag, bytes-like) for every buffer reachable from an input object."""
    import pyarrow as pa

    try:
        import polars as pl
    except ImportError:  # pragma: no cover
        pl = None
    if obj is None or isinstance(obj, (int, float, str, bool, slice)) or depth > 3:
        return
    if isinstance(obj, np.ndarray):
        if obj.dtype == object:
            out.append(("obj", repr(obj.tolist()).encode()))
        else:
            out.append(("np", np.ascontiguousarray(obj).view("uint8").tobytes() if obj.size else b""))
        return
    if isinstance(obj, pd.Series):
        out.append(("name", repr(obj.name).encode()))
        _buffers(obj.index, out, depth + 1)
        _buffers(obj.array, out, depth + 1)
        return
    if isinstance(obj, pd.MultiIndex):
        out.append(("mi", repr((list(obj.names), obj.tolist())).encode()))
        return
    if isinstance(obj, pd.Index):
        out.append(("names", repr(list(obj.names)).encode()))
        _buffers(obj.array if not isinstance(obj, pd.RangeIndex) else np.asarray(obj), out, depth + 1)
        return
    if isinstance(obj, pd.Categorical):
        out.append(("cat", np.asarray(obj.codes).tobytes() + repr(list(obj.categories)).encode()))
        return
    if isinstance(obj, pd.DataFrame):
        for c in obj.columns:
            _buffers(obj[c], out, depth + 1)
        return
    if isinstance(obj, pd.api.extensions.ExtensionArray):
        if hasattr(obj, "_pa_array"):
            _buffers(obj._pa_array, out, depth + 1)
        elif hasattr(obj, "_ndarray"):
            _buffers(obj._ndarray, out, depth + 1)
        else:
            out.append(("ext", repr(list(obj)).encode()))
        return
    if isinstance(obj, pa.ChunkedArray):
        for c in obj.chunks:
            _buffers(c, out, depth + 1)
        return
    if isinstance(obj, pa.Array):
        for b in obj.buffers():
            if b is not None:
                out.append(("pa", b.to_pybytes()))
        if isinstance(obj, pa.DictionaryArray):
            _buffers(obj.dictionary, out, depth + 1)
        return
    if pl is not None and isinstance(obj, pl.Series):
        _buffers(obj.to_arrow(), out, depth + 1)
        return
    if pl is not None and isinstance(obj, pl.DataFrame):
        for c in obj.columns:
            _buffers(obj[c], out, depth + 1)
        return
    if isinstance(obj, dict):
        out.append(("dict", repr([(repr(k), type(v).__name__, str(getattr(v, "dtype", ""))) for k, v in obj.items()]).encode()))
        for v in obj.values():
            _buffers(v, out, depth + 1)
        return
    if isinstance(obj, (list, tuple)):
        out.append(("seq", repr([(type(v).__name__, str(getattr(v, "dtype", "")), repr(getattr(v, "name", None))) for v in obj]).encode()))
        for v in obj:
            _buffers(v, out, depth + 1)
        return


def snapshot(*objs):
    """SHA-1 over all buffers of the given inputs."""
    bufs = []
    for o in objs:
        _buffers(o, bufs)
    h = hashlib.sha1()
    for tag, b in bufs:
        h.update(tag.encode())
        h.update(len(b).to_bytes(8, "little"))
        h.update(b)
    return h.hexdigest(), len(bufs)
