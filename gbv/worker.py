"""One shard of one check, in its own process (private numba cache, journal, per-case watchdog)."""
import argparse
import faulthandler
import hashlib
import importlib
import json
import os
import sys
import time
import traceback
from collections import Counter


def case_digest(case):
    return hashlib.blake2b(json.dumps(case, sort_keys=True, default=str).encode(), digest_size=8).digest()


def with_route(check):
    """run a check under the execution route named by case['strategy'] (scaled thresholds, see lib.set_strategy); checks that
    manage routes themselves simply set the same values again."""
    if getattr(check, "_gbv_routed", False):
        return check

    def routed(case, ctx):
        from . import lib

        st = case.get("strategy") if isinstance(case, dict) else None
        if not st:
            return check(case, ctx)
        lib.set_strategy(**st)
        try:
            return check(case, ctx)
        finally:
            lib.reset_strategy()

    routed._gbv_routed = True
    return routed


# Inputs the library refuses loudly and by design (an explicit NotImplementedError naming the combination) are outside every
# property's domain: a refusal is not a result.  They are counted, never reported - and never folded into "held" either.
DECLARED_UNSUPPORTED = ["NotImplementedError: masking with a stepped slicer and chunked group keys is not supported"]


def drop_declared_unsupported(fails, counters):
    kept = []
    for f in fails:
        if any(u in str(f.get("detail", "")) for u in DECLARED_UNSUPPORTED):
            counters["declared_unsupported_refusals"] += 1
        else:
            kept.append(f)
    return kept


class Ctx:
    def __init__(self, args, outdir):
        self.prop = args.prop
        self.tier = args.tier
        self.seed = args.seed
        self.shard = args.shard
        self.nshards = args.nshards
        self.mode = args.mode
        self.outdir = outdir
        self.n_eval = 0
        self.n_nontrivial = 0
        self.digests = set()
        self.features = Counter()
        self.counters = Counter()  # free-form named counters from the monitors
        self.samples = []
        self.failures = []
        self.harness_errors = []
        self.events = open(os.path.join(outdir, "events.jsonl"), "a")
        self.journal = open(os.path.join(outdir, "journal"), "a")
        self.cur = open(os.path.join(outdir, "cur.json"), "w")
        self.case_timeout = int(os.environ.get("GBV_CASE_TIMEOUT", "300"))
        self.skip_to = args.skip_to
        self.index = -1
        self.max_fail = 25

    def event(self, **kw):
        self.events.write(json.dumps(kw, default=str) + "\n")

    def count(self, name, k=1):
        self.counters[name] += k

    def run_case(self, case, check, features=None, nontrivial=None, shrink=None):
        """journal, watchdog, run, classify, record."""
        from . import lib

        self.index += 1
        if self.index < self.skip_to:
            return
        blob = json.dumps(case, default=str)
        self.cur.seek(0)
        self.cur.truncate()
        self.cur.write(blob)
        self.cur.flush()
        self.journal.write(f"START {self.index}\n")
        self.journal.flush()
        faulthandler.dump_traceback_later(self.case_timeout, exit=True)
        check = with_route(check)
        try:
            fails = list(check(case, self) or [])
            fails += lib.drain_side_failures()
            fails = drop_declared_unsupported(fails, self.counters)
        except Exception:
            self.harness_errors.append({"index": self.index, "trace": traceback.format_exc()[-3000:], "case": case})
            fails = []
            lib.drain_side_failures()
        finally:
            faulthandler.cancel_dump_traceback_later()
        self.n_eval += 1
        nt = True if nontrivial is None else bool(nontrivial(case))
        if nt:
            d = case_digest(case)
            if d not in self.digests:
                self.digests.add(d)
        if features is not None:
            f = features(case)
            for item in (f if isinstance(f, (list, tuple)) else [f]):
                self.features[item] += 1
        if len(self.samples) < 2 and nt:
            self.samples.append(case)
        if fails and len(self.failures) < self.max_fail:
            if shrink is not None:
                try:
                    case, fails = shrink(case, fails, check, self)
                except Exception:
                    pass
            for f in fails:
                f = dict(f)
                f.setdefault("case", case)
                f["index"] = self.index
                self.failures.append(f)
        elif fails:
            self.counters["failures_not_recorded"] += len(fails)
        self.journal.write(f"DONE {self.index}\n")

    def finish(self):
        from . import lib

        with open(os.path.join(self.outdir, "digests.bin"), "ab") as f:
            for d in self.digests:
                f.write(d)
        pm = [[site, n, list(perm), c] for (site, n, perm), c in lib.STATE["pm_events"].items()]
        res = {
            "shard": self.shard,
            "mode": self.mode,
            "n_eval": self.n_eval,
            "features": dict(self.features),
            "counters": dict(self.counters),
            "samples": self.samples,
            "failures": self.failures,
            "harness_errors": self.harness_errors[:5],
            "n_harness_errors": len(self.harness_errors),
            "pm_events": pm,
            "pm_calls": lib.STATE["pm_calls"],
            "c19_calls": lib.STATE["c19_calls"],
            "c19_buffers": lib.STATE["c19_buffers"],
            "last_index": self.index,
        }
        tmp = os.path.join(self.outdir, "result.json.tmp")
        with open(tmp, "w") as f:
            json.dump(res, f, default=str)
        # merge with earlier partial results of this shard (after a restart)
        os.replace(tmp, os.path.join(self.outdir, f"result.{self.skip_to}.json"))
        self.events.close()
        self.journal.close()


def main():
    ap = argparse.ArgumentParser()
    ap.add_argument("--prop", required=True)
    ap.add_argument("--tier", default="quick")
    ap.add_argument("--seed", type=int, default=0)
    ap.add_argument("--shard", type=int, default=0)
    ap.add_argument("--nshards", type=int, default=1)
    ap.add_argument("--mode", default="prod")
    ap.add_argument("--out", required=True)
    ap.add_argument("--skip-to", type=int, default=0)
    ap.add_argument("--replay", default=None)
    ap.add_argument("--corpus", default=None)
    args = ap.parse_args()

    os.makedirs(args.out, exist_ok=True)
    errf = open(os.path.join(args.out, "stderr.txt"), "a")
    faulthandler.enable(file=errf, all_threads=True)
    import warnings

    warnings.simplefilter("ignore")
    t0 = time.time()
    from . import lib

    lib.STATE["mode"] = args.mode
    lib.install()
    if args.mode == "interp":
        from . import interp

        interp.enable()
    mod = importlib.import_module(f"gbv.props.{args.prop.lower()}")
    ctx = Ctx(args, args.out)
    ctx.t_import = time.time() - t0
    if args.replay:
        with open(args.replay) as f:
            rec = json.load(f)
        case = rec["case"] if "case" in rec else rec
        fails = drop_declared_unsupported(list(with_route(mod.check)(case, ctx) or []) + lib.drain_side_failures(), ctx.counters)
        want = rec.get("monitor")
        hit = [f for f in fails if want is None or f["monitor"] == want]
        print(json.dumps({"replay_failures": fails}, default=str))
        sys.exit(1 if hit else 0)
    if args.corpus:
        with open(args.corpus) as f:
            corpus = json.load(f)
        for ent in corpus:
            n0 = len(ctx.failures)
            ctx.run_case(ent["case"], mod.check)
            for f in ctx.failures[n0:]:
                f["corpus_id"] = ent["id"]
        ctx.counters["corpus_cases"] = len(corpus)
        ctx.n_eval = 0  # corpus cases are not part of the explored workload
        ctx.digests = set()
        ctx.samples = []
        ctx.finish()
        return
    mod.run(ctx)
    ctx.finish()


if __name__ == "__main__":
    main()
