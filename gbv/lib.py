"""Library-facing side of the harness: strategy overrides, parallel_map observer, guarded calls.

No source hook in /repo is needed: the chunking threshold is a module global read at call time,
the thread-count rules are class properties, and parallel_map is rebound in every module that
imported it.  What runs inside is always the repository's own code (real ThreadPoolExecutor,
real as_completed gather); only the numbers deciding *when* a route is taken are scaled.
"""
import sys
import threading
import time
from collections import Counter

import numpy as np

from . import cmp

STATE = {
    "installed": False,
    "orig_pm": None,
    "jitter": None,  # np.random.Generator or None
    "pm_events": Counter(),  # (site, ntasks, finish permutation) -> count
    "pm_calls": 0,
    "pm_fail": [],
    "orig_props": {},
    "watch": [],  # objects snapshotted around every call (e.g. key arrays bound into a GroupBy)
    "c19_calls": 0,
    "c19_buffers": 0,
    "c19_fail": [],
    "mode": "prod",
}


def core():
    import groupby_lib.groupby.core as c

    return c


def install():
    """import the library and install the parallel_map observer in every module that bound it."""
    if STATE["installed"]:
        return
    import groupby_lib  # noqa
    import groupby_lib.util as util

    orig = util.parallel_map
    STATE["orig_pm"] = orig

    def observed_parallel_map(func, arg_list, *a, **kw):
        arg_list = list(arg_list)
        n = len(arg_list)
        rng = STATE["jitter"]
        if n <= 1 or kw.get("use_threads", True) is False or (len(a) >= 2 and a[1] is False):
            return orig(func, arg_list, *a, **kw)
        site = sys._getframe(1).f_code.co_name
        delays = rng.random(n) * 0.0015 if rng is not None else np.zeros(n)
        finish = []
        produced = [None] * n
        lock = threading.Lock()

        def task(idx, *args):
            if delays[idx]:
                time.sleep(delays[idx])
            r = func(*args)
            with lock:
                finish.append(idx)
                produced[idx] = r
            return r

        results = orig(task, [(i, *args) for i, args in enumerate(arg_list)], *a, **kw)
        STATE["pm_calls"] += 1
        STATE["pm_events"][(site, n, tuple(finish))] += 1
        ok = len(results) == n and all(results[i] is produced[i] for i in range(n))
        if not ok:
            STATE["pm_fail"].append(f"parallel_map at {site}: results not gathered by submission index (finish order {finish})")
        return results

    for name, mod in list(sys.modules.items()):
        if name.startswith("groupby_lib") and mod is not None and getattr(mod, "parallel_map", None) is orig:
            setattr(mod, "parallel_map", observed_parallel_map)
    install_parallel_kernel_guards()
    STATE["installed"] = True


def install_parallel_kernel_guards():
    """NUMBA_BOUNDSCHECK does not instrument `parallel=True` kernels (verified: an out-of-bounds read inside a prange loop
    goes unnoticed), so their implicit precondition - all element-wise operands have one length - is asserted here, at the
    call boundary, in every mode.  A violation is recorded as a side failure; the real kernel is still called."""
    import groupby_lib.groupby.numba as nbk

    real = getattr(nbk, "reduce_array_pair", None)
    if real is None or getattr(real, "_gbv_guard", False):
        return

    def guarded_reduce_array_pair(x, y, reducer, counts=None, other_counts=None):
        STATE["guard_calls"] = STATE.get("guard_calls", 0) + 1
        lens = {"x": len(x), "y": len(y)}
        if counts is not None:
            lens["counts"] = len(counts)
        if other_counts is not None:
            lens["other_counts"] = len(other_counts)
        if len(set(lens.values())) > 1:
            STATE["pm_fail"].append(f"reduce_array_pair (parallel kernel, no bounds checks) called with operands of different lengths {lens}: "
                                    f"out-of-bounds read/write")
        return real(x, y, reducer, counts, other_counts) if counts is not None or other_counts is not None else real(x, y, reducer)

    guarded_reduce_array_pair._gbv_guard = True
    guarded_reduce_array_pair.__wrapped__ = real
    nbk.reduce_array_pair = guarded_reduce_array_pair


def set_jitter(seed):
    STATE["jitter"] = None if seed is None else np.random.Generator(np.random.PCG64(int(seed)))


def set_strategy(chunk_threshold=None, rows_per_thread=None, key_chunks=None):
    """scale the numbers that decide the execution route (None = production value)."""
    c = core()
    GB = c.GroupBy
    if "thr" not in STATE["orig_props"]:
        STATE["orig_props"]["thr"] = c.THRESHOLD_FOR_CHUNKED_FACTORIZE
        STATE["orig_props"]["mt"] = GB.__dict__.get("_max_threads_for_numba")
        STATE["orig_props"]["kc"] = GB.__dict__.get("_n_threads_for_key_factorization")
    c.THRESHOLD_FOR_CHUNKED_FACTORIZE = STATE["orig_props"]["thr"] if chunk_threshold is None else int(chunk_threshold)
    if rows_per_thread is None:
        if STATE["orig_props"]["mt"] is not None:
            GB._max_threads_for_numba = STATE["orig_props"]["mt"]
    else:
        rpt = int(rows_per_thread)
        GB._max_threads_for_numba = property(lambda self: min(4, 1 + len(self) // rpt))
    if key_chunks is None:
        if STATE["orig_props"]["kc"] is not None:
            GB._n_threads_for_key_factorization = STATE["orig_props"]["kc"]
    else:
        kc = int(key_chunks)
        GB._n_threads_for_key_factorization = property(lambda self: kc)


def reset_strategy():
    if STATE["orig_props"]:
        set_strategy(None, None, None)


class Raised:
    """outcome of a library call that raised."""

    def __init__(self, exc):
        self.exc = exc

    def __repr__(self):
        return f"Raised({type(self.exc).__name__}: {str(self.exc)[:200]})"


def call(fn, *args, **kwargs):
    """Run a library call.  Returns its result, or Raised(exc).  All array inputs (and the watched
    objects) are byte-snapshotted before and after: a difference is a C19 observation."""
    before, nb = cmp.snapshot(args, kwargs, STATE["watch"])
    try:
        out = fn(*args, **kwargs)
    except (KeyboardInterrupt, SystemExit, MemoryError):
        raise
    except BaseException as e:  # noqa: the library may raise anything, incl. numba errors / AssertionError
        out = Raised(e)
    after, _ = cmp.snapshot(args, kwargs, STATE["watch"])
    STATE["c19_calls"] += 1
    STATE["c19_buffers"] += nb
    if before != after:
        STATE["c19_fail"].append(f"{getattr(fn, '__qualname__', fn)} modified an input buffer")
    return out


def raised(x):
    return isinstance(x, Raised)


def drain_side_failures():
    """failures recorded by the always-on monitors (parallel_map gather, input snapshots)."""
    out = []
    for d in STATE["pm_fail"]:
        out.append({"monitor": "sanitizer.parallel_kernel" if d.startswith("reduce_array_pair") else "pm.gather", "detail": d})
    for d in STATE["c19_fail"]:
        out.append({"monitor": "c19.input_modified", "detail": d})
    STATE["pm_fail"].clear()
    STATE["c19_fail"].clear()
    return out
