"""Entry point: ./check <ID> <quick|thorough> [--replay FILE]

Starts worker subprocesses (never a multiprocessing pool: a worker may die of a segfault), each with
a private numba cache, aggregates their results, applies the known-findings file, writes
evidence/<ID>.json and decides the three-valued verdict (exit 0 held / 1 violation / 2 inconclusive).
"""
import glob
import hashlib
import importlib
import json
import os
import shutil
import subprocess
import sys
import time
from collections import Counter

ROOT = os.path.dirname(os.path.dirname(os.path.abspath(__file__)))
REPO = os.environ.get("GBV_REPO", "/repo")
PY = "/venv/bin/python"


def worker_env(outdir, mode):
    env = dict(os.environ)
    env["GROUPBY_LIB_VERIF"] = "1"
    env["PYTHONHASHSEED"] = "0"
    deps = os.path.join(ROOT, ".deps")
    env["PYTHONPATH"] = os.pathsep.join([REPO, ROOT, deps])
    env["NUMBA_CACHE_DIR"] = os.path.join(outdir, "nbcache")
    env["NUMBA_NUM_THREADS"] = env.get("GBV_NUMBA_THREADS", "4")
    env["PYTHONDONTWRITEBYTECODE"] = "1"
    env["PYTHONWARNINGS"] = "ignore"
    env["POLARS_MAX_THREADS"] = "2"
    env["OMP_NUM_THREADS"] = "2"
    env["OMP_WAIT_POLICY"] = "PASSIVE"  # idle OpenMP workers sleep instead of spinning (16 cores, many workers)
    env.pop("NUMBA_BOUNDSCHECK", None)
    if mode == "bounds":
        env["NUMBA_BOUNDSCHECK"] = "1"
    return env


def ensure_deps():
    """icontract beside the repository's interpreter, from the offline wheelhouse (idempotent)."""
    deps = os.path.join(ROOT, ".deps")
    if os.path.isdir(os.path.join(deps, "icontract")):
        return True
    os.makedirs(deps, exist_ok=True)
    r = subprocess.run(
        [PY, "-m", "pip", "install", "-q", "--no-index", "--find-links", "/opt/veriftools/wheels",
         "--target", deps, "icontract"],
        capture_output=True, text=True,
    )
    return r.returncode == 0


class Shard:
    def __init__(self, idx, nshards, mode, outdir):
        self.idx, self.nshards, self.mode, self.outdir = idx, nshards, mode, outdir
        self.proc = None
        self.skip_to = 0
        self.restarts = 0
        self.crashes = []  # dicts
        self.started = None
        self.done = False
        self.timed_out = False


def last_open_case(outdir):
    """index of the case that was running when the worker died, or None."""
    start = done = None
    try:
        with open(os.path.join(outdir, "journal")) as f:
            for line in f:
                p = line.split()
                if len(p) != 2:
                    continue
                if p[0] == "START":
                    start = int(p[1])
                elif p[0] == "DONE":
                    done = int(p[1])
    except FileNotFoundError:
        return None
    if start is not None and start != done:
        return start
    return None


def run_shards(prop, tier, seed, plan, workdir, corpus_file=None, max_workers=None, wall_limit=None):
    max_workers = max_workers or int(os.environ.get("GBV_WORKERS", "15"))
    shards = []
    for i, spec in enumerate(plan):
        out = os.path.join(workdir, f"s{i:02d}_{spec['mode']}")
        os.makedirs(out, exist_ok=True)
        sh = Shard(spec["shard"], spec["nshards"], spec["mode"], out)
        sh.corpus = corpus_file if spec.get("corpus") else None
        shards.append(sh)
    pending = list(shards)
    running = []
    t_start = time.time()

    def launch(sh):
        cmd = [PY, "-m", "gbv.worker", "--prop", prop, "--tier", tier, "--seed", str(seed),
               "--shard", str(sh.idx), "--nshards", str(sh.nshards), "--mode", sh.mode,
               "--out", sh.outdir, "--skip-to", str(sh.skip_to)]
        if sh.corpus:
            cmd += ["--corpus", sh.corpus]
        sh.proc = subprocess.Popen(cmd, env=worker_env(sh.outdir, sh.mode), cwd=ROOT,
                                   stdout=open(os.path.join(sh.outdir, "stdout.txt"), "a"),
                                   stderr=open(os.path.join(sh.outdir, "stderr2.txt"), "a"))
        sh.started = time.time()

    while pending or running:
        while pending and len(running) < max_workers:
            sh = pending.pop(0)
            launch(sh)
            running.append(sh)
        time.sleep(0.2)
        for sh in list(running):
            rc = sh.proc.poll()
            if rc is None:
                if wall_limit and time.time() - t_start > wall_limit:
                    sh.proc.kill()
                    sh.timed_out = True
                    running.remove(sh)
                continue
            running.remove(sh)
            ok = os.path.exists(os.path.join(sh.outdir, f"result.{sh.skip_to}.json"))
            if rc == 0 and ok:
                sh.done = True
                continue
            idx = last_open_case(sh.outdir)
            err = ""
            try:
                err = open(os.path.join(sh.outdir, "stderr.txt")).read()[-6000:]
            except OSError:
                pass
            try:
                err2 = open(os.path.join(sh.outdir, "stderr2.txt")).read()[-3000:]
            except OSError:
                err2 = ""
            if idx is None:
                sh.crashes.append({"kind": "worker_failed", "rc": rc, "stderr": err + err2})
                continue
            case = None
            try:
                case = json.load(open(os.path.join(sh.outdir, "cur.json")))
            except Exception:
                pass
            kind = "hang" if "Timeout (" in err else "crash"
            sh.crashes.append({"kind": kind, "rc": rc, "index": idx, "case": case, "stderr": err})
            sh.restarts += 1
            if sh.restarts <= 8:
                sh.skip_to = idx + 1
                # keep the truncated stderr apart so the next crash is classified on its own output
                try:
                    os.replace(os.path.join(sh.outdir, "stderr.txt"), os.path.join(sh.outdir, f"stderr.{idx}.txt"))
                except OSError:
                    pass
                launch(sh)
                running.append(sh)
    return shards


def collect(shards):
    agg = {
        "n_eval": 0, "features": Counter(), "counters": Counter(), "samples": [], "failures": [],
        "harness_errors": [], "n_harness_errors": 0, "pm_events": Counter(), "pm_calls": 0,
        "c19_calls": 0, "c19_buffers": 0, "modes": Counter(), "digests": set(), "crashes": [],
        "incomplete": [],
    }
    for sh in shards:
        for path in sorted(glob.glob(os.path.join(sh.outdir, "result.*.json"))):
            r = json.load(open(path))
            agg["n_eval"] += r["n_eval"]
            agg["modes"][r["mode"]] += r["n_eval"]
            agg["features"].update(r["features"])
            agg["counters"].update(r["counters"])
            if len(agg["samples"]) < 6:
                agg["samples"] += r["samples"][:1]
            for f in r["failures"]:
                f["mode"] = r["mode"]
                agg["failures"].append(f)
            agg["harness_errors"] += r["harness_errors"]
            agg["n_harness_errors"] += r["n_harness_errors"]
            for site, n, perm, c in r["pm_events"]:
                agg["pm_events"][(site, n, tuple(perm))] += c
            agg["pm_calls"] += r["pm_calls"]
            agg["c19_calls"] += r["c19_calls"]
            agg["c19_buffers"] += r["c19_buffers"]
        dpath = os.path.join(sh.outdir, "digests.bin")
        if os.path.exists(dpath):
            b = open(dpath, "rb").read()
            for i in range(0, len(b), 8):
                agg["digests"].add(b[i:i + 8])
        for c in sh.crashes:
            c["shard"] = sh.idx
            c["mode"] = sh.mode
            agg["crashes"].append(c)
        if not sh.done:
            agg["incomplete"].append({"shard": sh.idx, "mode": sh.mode, "timed_out": sh.timed_out})
    return agg


def load_events(shards):
    for sh in shards:
        p = os.path.join(sh.outdir, "events.jsonl")
        if os.path.exists(p):
            with open(p) as f:
                for line in f:
                    try:
                        yield json.loads(line)
                    except ValueError:
                        continue


def failure_sig(f):
    return f"{f['monitor']}|{f.get('sig', '')}"


def main(argv=None):
    argv = list(sys.argv[1:] if argv is None else argv)
    if len(argv) < 1:
        print("usage: check <ID> <quick|thorough> [--replay FILE]")
        return 2
    prop = argv[0].upper()
    tier = os.environ.get("VERIF_TIER") or "quick"
    replay = None
    rest = argv[1:]
    while rest:
        a = rest.pop(0)
        if a in ("quick", "thorough"):
            tier = a
        elif a == "--replay":
            replay = rest.pop(0)
    seed = int(os.environ.get("VERIF_SEED", "0") or 0)
    t0 = time.time()
    sys.path.insert(0, ROOT)
    ensure_deps()
    os.makedirs(os.path.join(ROOT, "evidence"), exist_ok=True)
    workdir = os.path.join(ROOT, ".work", f"{prop}-{tier}-{os.getpid()}")
    shutil.rmtree(workdir, ignore_errors=True)
    os.makedirs(workdir)
    try:
        if replay:
            return do_replay(prop, tier, seed, replay, workdir)
        return do_check(prop, tier, seed, workdir, t0)
    finally:
        if not os.environ.get("GBV_KEEP_WORK"):
            shutil.rmtree(workdir, ignore_errors=True)


def do_replay(prop, tier, seed, replay, workdir):
    rc_any = 0
    for mode in ("prod", "bounds"):
        out = os.path.join(workdir, f"replay_{mode}")
        os.makedirs(out, exist_ok=True)
        cmd = [PY, "-m", "gbv.worker", "--prop", prop, "--tier", tier, "--seed", str(seed), "--mode", mode,
               "--out", out, "--replay", os.path.abspath(replay)]
        try:
            r = subprocess.run(cmd, env=worker_env(out, mode), cwd=ROOT, capture_output=True, text=True, timeout=1800)
        except subprocess.TimeoutExpired:
            print(f"replay[{mode}]: timed out (operation does not return)")
            rc_any = 1
            continue
        print(f"replay[{mode}] rc={r.returncode} {r.stdout.strip()[-2000:]}")
        if r.returncode not in (0, 1):
            print(r.stderr[-2000:])
            print(f"replay[{mode}]: worker died (rc={r.returncode})")
            rc_any = 1
        elif r.returncode == 1:
            rc_any = 1
    if rc_any:
        print(f"VIOLATION property={prop} replay={replay}")
    return rc_any


def do_check(prop, tier, seed, workdir, t0):
    from . import kf

    mod = importlib.import_module(f"gbv.props.{prop.lower()}")
    plan = mod.plan(tier)
    # regression corpus + open-finding witnesses run first in the first prod shard
    findings = kf.load()
    corpus = [dict(id=f["id"], status=f["status"], case=w)
              for f in findings if prop in f["properties"] for w in f.get("witnesses", {}).get(prop, [])]
    corpus_file = None
    if corpus:
        corpus_file = os.path.join(workdir, "corpus.json")
        json.dump(corpus, open(corpus_file, "w"))
        plan = [dict(shard=0, nshards=1, mode="prod", corpus=True)] + plan
    wall = float(os.environ.get("GBV_WALL_LIMIT", "2400" if tier == "quick" else "28000"))
    shards = run_shards(prop, tier, seed, plan, workdir, corpus_file=corpus_file, wall_limit=wall)
    agg = collect(shards)

    offline_fail, offline_ev = [], {}
    if hasattr(mod, "offline"):
        offline_fail, offline_ev = mod.offline(load_events(shards), agg)
        agg["failures"] += offline_fail

    # ---------------- classify failures
    violations = {}
    known_hits = Counter()
    corpus_fail = {}
    for f in agg["failures"]:
        cid = f.get("corpus_id")
        if cid is not None:
            corpus_fail.setdefault(cid, []).append(f)
            continue
        fid = kf.classify(prop, f, findings)
        if fid:
            known_hits[fid] += 1
            continue
        violations.setdefault(failure_sig(f), []).append(f)
    for c in agg["crashes"]:
        if c["kind"] == "worker_failed":
            continue
        f = {"monitor": "crash" if c["kind"] == "crash" else "hang", "sig": "", "case": c.get("case"),
             "detail": f"worker {c['kind']} rc={c['rc']}: {c['stderr'][-1500:]}", "mode": c["mode"]}
        if c["kind"] == "hang":
            continue  # inconclusive, handled below
        fid = kf.classify(prop, f, findings)
        if fid:
            known_hits[fid] += 1
        else:
            violations.setdefault(failure_sig(f), []).append(f)

    lines = []
    # corpus: fixed witnesses must pass, open witnesses print KNOWN-FINDING while they still fail
    for c in corpus:
        fails = corpus_fail.get(c["id"], [])
        if c["status"] == "open":
            if fails:
                fobj = next(f for f in findings if f["id"] == c["id"])
                lines.append(f"KNOWN-FINDING: property={prop} {fobj['id']}: {fobj['what_fails']}")
        elif fails:
            for f in fails:
                f = dict(f)
                # the witness of a fixed finding may lie inside the trigger region of an *open* finding (e.g. the smallest
                # input of F02 leaves no group at all, where median still raises: K03): that is the open finding, not a regression
                fid = kf.classify(prop, f, findings)
                if fid:
                    known_hits[fid] += 1
                    continue
                f["detail"] = f"regression of fixed finding {c['id']}: " + f.get("detail", "")
                violations.setdefault("regression|" + c["id"] + "|" + failure_sig(f), []).append(f)
    for fid, cnt in known_hits.items():
        fobj = next(f for f in findings if f["id"] == fid)
        line = f"KNOWN-FINDING: property={prop} {fobj['id']}: {fobj['what_fails']}"
        if line not in lines:
            lines.append(line)

    rdir = os.path.join(ROOT, "replays", prop)
    vio_out = []
    for sig, fs in violations.items():
        os.makedirs(rdir, exist_ok=True)
        f = min(fs, key=lambda x: len(json.dumps(x.get("case"), default=str)))
        h = hashlib.sha1(sig.encode()).hexdigest()[:10]
        path = os.path.join(rdir, f"{h}.json")
        json.dump({"property": prop, "monitor": f["monitor"], "sig": f.get("sig"), "detail": f.get("detail"),
                   "mode": f.get("mode"), "n_similar": len(fs), "case": f.get("case")},
                  open(path, "w"), indent=1, default=str)
        vio_out.append((sig, path, f, len(fs)))

    # ---------------- inconclusive conditions
    inconclusive = []
    if agg["incomplete"]:
        inconclusive.append(f"shards did not complete: {agg['incomplete']}")
    hangs = [c for c in agg["crashes"] if c["kind"] == "hang"]
    if hangs:
        os.makedirs(rdir, exist_ok=True)
        hp = os.path.join(rdir, "hang.json")
        json.dump({"property": prop, "monitor": "hang", "case": hangs[0].get("case"), "detail": hangs[0]["stderr"][-3000:]},
                  open(hp, "w"), indent=1, default=str)
        inconclusive.append(f"{len(hangs)} case(s) hit the per-case watchdog; replay={hp}")
    wf = [c for c in agg["crashes"] if c["kind"] == "worker_failed"]
    if wf:
        inconclusive.append(f"worker could not run: rc={wf[0]['rc']} {wf[0]['stderr'][-800:]}")
    if agg["n_harness_errors"]:
        inconclusive.append(f"{agg['n_harness_errors']} harness errors, first: {agg['harness_errors'][0]['trace'][-1200:]}")
    if agg["n_eval"] == 0:
        inconclusive.append("no case was evaluated")
    if hasattr(mod, "inconclusive"):
        inconclusive += list(mod.inconclusive(agg) or [])
    need = getattr(mod, "required_counters", lambda tier: [])(tier)
    for name in need:
        if agg["counters"].get(name, 0) == 0 and agg["features"].get(name, 0) == 0:
            inconclusive.append(f"deciding counter '{name}' is zero")

    # ---------------- evidence
    ev_cov = {
        "evaluations": agg["n_eval"],
        "distinct_nontrivial": len(agg["digests"]),
        "rule": getattr(mod, "RULE", ""),
        "samples": agg["samples"][:4],
        "by_mode": dict(agg["modes"]),
        "features": dict(sorted(agg["features"].items(), key=lambda kv: -kv[1])[:400]),
        "counters": dict(agg["counters"]),
        "parallel_map": {
            "calls_observed": agg["pm_calls"],
            "distinct_completion_orders": len(agg["pm_events"]),
            "per_site": summarise_pm(agg["pm_events"]),
        },
        "input_snapshots": {"calls": agg["c19_calls"], "buffers_hashed": agg["c19_buffers"]},
        "known_finding_hits": dict(known_hits),
        "corpus_cases": len(corpus),
        "crashes": len([c for c in agg["crashes"] if c["kind"] == "crash"]),
        "hangs": len(hangs),
        "inconclusive": inconclusive,
    }
    ev_cov.update(offline_ev or {})
    if hasattr(mod, "evidence_extra"):
        ev_cov.update(mod.evidence_extra(agg) or {})
    evidence = {
        "property_id": prop,
        "tier": tier,
        "seed": seed,
        "level": getattr(mod, "LEVEL", "exploration"),
        "coverage": ev_cov,
        "assumptions": getattr(mod, "ASSUMPTIONS", []),
        "wall_s": round(time.time() - t0, 2),
        "violations": len(vio_out),
    }
    with open(os.path.join(ROOT, "evidence", f"{prop}.json"), "w") as f:
        json.dump(evidence, f, indent=1, default=str)

    for line in lines:
        print(line)
    print(f"[{prop} {tier} seed={seed}] cases={agg['n_eval']} distinct_nontrivial={len(agg['digests'])} "
          f"modes={dict(agg['modes'])} pm_calls={agg['pm_calls']} known_hits={dict(known_hits)} "
          f"wall={time.time() - t0:.1f}s")
    if vio_out:
        for sig, path, f, n in vio_out:
            print(f"  violation [{sig}] x{n} ({f.get('mode')}): {str(f.get('detail'))[:600]}")
        for sig, path, f, n in vio_out:
            print(f"VIOLATION property={prop} replay={path}")
        return 1
    if inconclusive:
        for r in inconclusive:
            print(f"INCONCLUSIVE property={prop} reason={r}")
        return 2
    return 0


def summarise_pm(pm_events):
    sites = {}
    for (site, n, perm), c in pm_events.items():
        s = sites.setdefault(f"{site}/{n}", {"calls": 0, "orders": set()})
        s["calls"] += c
        s["orders"].add(perm)
    return {k: {"calls": v["calls"], "distinct_orders": len(v["orders"])} for k, v in sorted(sites.items())}


if __name__ == "__main__":
    sys.exit(main())
