#!/usr/bin/env python3
"""validate MANIFEST.json and every evidence/<id>.json against the schemas in /root/.vp (run with python3-vt: needs jsonschema)."""
import glob, json, os, sys
import jsonschema
ROOT = os.path.dirname(os.path.dirname(os.path.abspath(__file__)))
ms = json.load(open("/root/.vp/MANIFEST.schema.json")); es = json.load(open("/root/.vp/EVIDENCE.schema.json"))
m = json.load(open(os.path.join(ROOT, "MANIFEST.json")))
jsonschema.validate(m, ms)
bad = 0
ids = [c["property_id"] for c in m["checks"]]
for i in ids:
    p = os.path.join(ROOT, "evidence", f"{i}.json")
    if not os.path.exists(p):
        print("missing evidence", i); bad += 1; continue
    e = json.load(open(p))
    try:
        jsonschema.validate(e, es)
        c = e["coverage"]
        print(i, e["tier"], "seed", e["seed"], "eval", c["evaluations"], "distinct", c["distinct_nontrivial"], "violations", e.get("violations"), "wall", e["wall_s"], "inconclusive" if c.get("inconclusive") else "")
    except jsonschema.ValidationError as ex:
        print("INVALID", i, ex.message[:200]); bad += 1
props = [json.loads(l)["id"] for l in open(os.path.join(ROOT, "properties.jsonl"))]
na = [x["property_id"] for x in m.get("not_applicable", [])]
print("claimed", len(ids), "not_applicable", len(na), "unaccounted", sorted(set(props) - set(ids) - set(na)))
sys.exit(1 if bad else 0)
