#!/usr/bin/env python3
"""Regenerate MANIFEST.json from the table below (run from /verif)."""
import json, os, subprocess
ROOT = os.path.dirname(os.path.dirname(os.path.abspath(__file__)))
BASE = json.load(open("/root/.vp/BASELINE.json"))["cmd"] if os.path.exists("/root/.vp/BASELINE.json") else ""
import sys
sys.path.insert(0, os.path.join(ROOT, "tools"))
from tools_checks import CHECKS, NOT_APPLICABLE  # noqa
def main():
    commits = subprocess.run(["git", "-C", "/repo", "log", "--format=%h %s", "be63ad5..HEAD"], capture_output=True, text=True).stdout.strip().splitlines()
    hook_commits = [c.split()[0] for c in commits if " hook:" in c or c.split(" ", 1)[1].startswith("verif hook")]
    m = {
        "version": 1,
        "setup_cmd": "./setup.sh",
        "hooks": {
            "guard": "GROUPBY_LIB_VERIF",
            "enable": "checks run the working tree of /repo through PYTHONPATH with GROUPBY_LIB_VERIF=1; the strategy overrides and the parallel_map observer are installed from the harness side (gbv/lib.py), no build step",
            "baseline_off_cmd": "cd /repo && env -u GROUPBY_LIB_VERIF /venv/bin/python -m pytest -ra -q -p no:cacheprovider --timeout=900 --continue-on-collection-errors",
            "source_commits": hook_commits,
            "add_only": True,
        },
        "engines": [{"name": "gbv", "path": "gbv/", "serves_properties": [c["id"] for c in CHECKS],
                     "kind_free_text": "runtime monitoring: seeded hostile workloads against the real library in worker subprocesses (prod JIT + NUMBA_BOUNDSCHECK sanitizer mode), reference-model / relational / invariant monitors, parallel_map schedule observer, input byte snapshots, journal + watchdog for crashes and hangs"}],
        "checks": [],
        "not_applicable": NOT_APPLICABLE,
        "notes": "All verdicts are 'held on the executions driven'. exit 0 held / 1 violation (VIOLATION line) / 2 inconclusive (deciding counter zero, watchdog). known_findings.json is the committed known-findings file.",
    }
    for c in CHECKS:
        m["checks"].append({
            "property_id": c["id"],
            "quick_cmd": f"./check {c['id']} quick",
            "thorough_cmd": f"./check {c['id']} thorough",
            "evidence_file": f"evidence/{c['id']}.json",
            "replay_cmd_template": f"./check {c['id']} quick --replay {{path}}",
            "engine": "gbv",
            "level_claimed": {"category": "exploration", "text": c["text"], "design_ref": c.get("ref", "DESIGN.md §5 " + c["id"])},
            "level_note": c["note"],
            "technique": c["technique"],
        })
    json.dump(m, open(os.path.join(ROOT, "MANIFEST.json"), "w"), indent=1)
    print("wrote MANIFEST.json with", len(CHECKS), "checks;", len(NOT_APPLICABLE), "not_applicable")
if __name__ == "__main__":
    main()
