"""Table of registered checks.  READY lists the properties whose check is registered."""
NOTE = ("trusted base: the pure-Python reference model (gbv/model.py, cross-checked against pandas at start-up), NumPy/pandas as "
        "second implementations, numba's NUMBA_BOUNDSCHECK instrumentation, harness-side strategy overrides (gbv/lib.py). "
        "Sampling, not proof: the verdict covers the executions listed in the evidence file only.")
T = {
 "C01": ("reference-model monitor over seeded random datasets (GroupBy reductions vs naive per-group definition), plus bounds-checked replay",
         "Every GroupBy size/count/sum/mean/min/max/first/last call driven (1-3 keys of 6 kinds, 19 value dtypes, 5 mask kinds, hostile layouts, all-null and emptied groups) is compared label-by-label with an independent per-group definition; a fraction is replayed under numba bounds checking."),
 "C02": ("invariant monitor on constructed groupings (codes/labels/groups/sizes vs logical keys) across all factorization routes",
         "Partition invariants I1-I6 are evaluated on every grouping built through each factorization route (plain, categorical, bool, range, arrow/polars, monotonic, sorted-prefix, scaled chunk-wise, pre-chunked) and on direct factorize_1d/2d/monotonic_factorization returns."),
 "C03": ("relational monitor: same logical call under different strategies (threads, chunking, schedules with jitter) + parallel_map completion-order log",
         "Each call is executed under a baseline strategy and under scaled multi-thread / chunked / monotonic / arrow-chunked strategies with seeded completion-order jitter; results must be identical (sums/means to rounding); real-threshold 1M-row cases included."),
 "C04": ("exhaustive small-scope enumeration + random sampling of the group_* kernels against the model and NumPy indexing",
         "All code/value sequences up to the tier's length bound, every block split (n_threads, chunked value lists) and every mask kind are enumerated for each kernel and dtype class; merge law, definition and mask law are asserted."),
 "C05": ("relational monitor mask == filter-first plus non-interference perturbation of unselected rows",
         "Every maskable operation is run with a mask and on the filtered data; selected-row outputs must agree and must not change when unselected rows are perturbed."),
 "C06": ("relational monitor: delete null-key rows / perturb values at null-key rows; constancy of null-key outputs; bounds mode",
         "For every operation the result with null-key rows present must equal the result after deleting them; outputs at null-key rows must be one constant marker independent of other rows."),
 "C07": ("relational monitor transform=True vs per-group result looked up by logical key",
         "transform=True output length, index, container and per-row values are compared with the non-transform result of the same call for every supported reduction, chunked and unchunked keys."),
 "C08": ("reference-model monitor for cumulative ops with exact integer/temporal arithmetic + cross-check with reductions",
         "cumsum/cummin/cummax/cumcount at every non-null-key row vs per-group prefix reductions in exact arithmetic; last value vs the library's own reduction; dtype kind preserved."),
 "C09": ("reference-model monitor for rolling/shift/diff with bit-exact membership for extremes",
         "rolling sum/mean/min/max, shift and diff vs explicit per-group window lists; extremes/shift must be bit-equal to an input element; both output layouts; large windows."),
 "C10": ("closed-form EMA oracle (O(n^2) weighted mean) + relational monitors across entry points and parameterisations",
         "ema / ema_grouped / GroupBy.ema outputs vs the normalised exponentially weighted mean per group; halflife vs alpha equivalence; grouped vs ungrouped; interleaving invariance."),
 "C11": ("reference ordering/shape monitor on result index, names, columns + column-independence relation",
         "Index levels, names, label order (sorted / category / first appearance), observed filtering, Series-vs-DataFrame shape and per-column independence for every input shape."),
 "C12": ("relational monitor across containers (numpy baseline vs pandas/arrow/polars/chunked) + membership and dtype checks",
         "The same logical data poured into every key/value container pair must give identical labels and numbers; selection-type results must be input elements of the input dtype; integer sums exact."),
 "C13": ("history monitor: random operation sequences on one object vs fresh objects; offline digest checker; class-invariant hook",
         "Random histories over all operation families on contiguous / chunked / unified representations; each call compared with a fresh grouping; representation transitions observed and counted."),
 "C14": ("reference-model monitor aggregating raw rows for every margin combination and crosstab cell",
         "margins= rows and crosstab cells/margins are recomputed from the raw selected rows (sum/count/size/min/max/mean) and compared by label; ordinary rows must be unchanged."),
 "C15": ("reference-model monitor on selected positions for head/tail/nth incl. very large groups",
         "head/tail/nth(keep_input_index=True) results vs model positions: exact index labels, values bit-equal, order, no null-key row; group sizes up to >65536."),
 "C16": ("exact rational two-pass variance oracle, NumPy median/quantile oracle, relational checks for composites",
         "var/std within c*n*eps*max(x^2) of the exact value; median/quantile vs NumPy; apply vs direct call per group; agg/ratio/density vs primitives."),
 "C17": ("differential monitor facade vs core engine vs pandas groupby",
         "groupby_fast results for every facade method vs GroupBy on the selected columns and vs pandas for the shared null-skipping operations; iteration, selection and cumcount checks."),
 "C18": ("accept/reject grid monitor over misaligned argument lengths and pandas indexes",
         "Every public operation x array argument x length/index perturbation must raise; every aligned call must return (counted)."),
 "C19": ("byte-level snapshots of all input buffers around every call + mutate-result-then-repeat workload",
         "SHA-1 of every key/value/mask/times buffer before and after each call; after in-place edits of returned results inputs and repeated results must be unchanged."),
 "C20": ("differential monitor of nanops / nb_dot / bools_to_categorical / pretty_cut against NumPy and label parsing",
         "nan-reducers for all thread counts vs NumPy; nb_dot vs @; boolean-frame labels name exactly the true columns; pretty_cut labels contain their values."),
}
READY = []
try:
    from ready import READY  # noqa
except Exception:
    pass
CHECKS = [dict(id=i, technique="runtime monitoring: " + T[i][0], text=T[i][1], note=NOTE) for i in sorted(T) if i in READY]
NOT_APPLICABLE = [dict(property_id=i, reason="check not registered yet (monitor under construction; the technique applies, see DESIGN.md §5)") for i in sorted(T) if i not in READY]
