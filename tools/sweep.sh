#!/bin/bash
# tools/sweep.sh <tier> "<seeds>" [ids...]  - run checks over several seeds, print one line per run
cd "$(dirname "$0")/.." || exit 2
tier=${1:-quick}; seeds=${2:-"1 2 3"}; shift 2
ids=${@:-$(python3 -c "import sys; sys.path.insert(0,'tools'); from ready import READY; print(' '.join(READY))")}
./setup.sh >/dev/null 2>&1
for s in $seeds; do for id in $ids; do
  out=$(VERIF_SEED=$s ./check $id $tier 2>&1); rc=$?
  echo "== $id seed=$s rc=$rc $(echo "$out" | grep -E '^\[' | tail -1)"
  [ $rc -ne 0 ] && echo "$out" | grep -E "violation|INCONCLUSIVE|VIOLATION" | cut -c1-600 | head -12
done; done
