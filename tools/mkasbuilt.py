#!/usr/bin/env python3
"""tools/mkasbuilt.py - regenerate the numeric columns (and the as-built notes) of the DESIGN §5 table from evidence/*.json."""
import json, os, re
ROOT = os.path.dirname(os.path.dirname(os.path.abspath(__file__)))
NOTES = {
"C01": "a quarter of the single-key cases on the chunk-wise / Arrow-chunked / multi-thread routes; stepped slices; one group of 65 536 / 70 000 rows (thorough: up to 1.1M) against NumPy",
"C02": "routes observed on the object; Arrow nulls, dictionary arrays with unsigned indices, per-chunk dictionaries; direct factorize_1d/2d/monotonic calls; keys with 127..65 537 labels and level products on both sides of the combiner's 5e8 switch",
"C03": "7 strategy variants per case incl. 3 jitter schedules; every k! completion order seen for k<=4; two real-size (1M-row) cases in quick, ~12 in thorough",
"C04": "exhaustive to length 3 (quick) / 4 (thorough) over 5 dtype classes; every block composition also with masks (positional with repeats / descending); > 1.1M kernel calls per quick run",
"C05": "three calls per case (masked, filtered, perturbed); a third of the cases on the multi-thread / chunk-wise / Arrow-chunked routes; slices written from the front and from the back over chunked keys; stepped slices",
"C06": "deletion, constant-marker and perturbation relations; groups and group_nearby_members included; route variation",
"C07": "logical-key lookup; polars in/out; chunk-wise keys; two value columns of different dtypes (ids beyond 2**53 next to floats) against the one-column calls",
"C08": "exact Python-int model; last-value vs reduction cross-check; route variation; one group of 65 535..70 000 rows (thorough: 200 000) against NumPy prefix reductions",
"C09": "large-window block (32767/32768/40000 on a 70000-row group); datetime rolling mean; both layouts",
"C10": "closed form + halflife/alpha + grouped/ungrouped + interleaving + direct ema_grouped; tick-level timestamps, microsecond halflives, pre-1970 and non-ns units",
"C11": "6 input shapes; names (strings, integers, False), order, observed filtering, column independence; chunk-wise route; second call on the same grouping with the mask buffer refilled",
"C12": "3 container pairs per case against the numpy baseline; Arrow nulls incl. nullable ints/bools; tz-aware values",
"C13": "histories of 2-10 steps, 4 representations, copy constructor, class-level form against the instance form for every operation, failing steps, caller buffers refilled in place, one-mask-per-group sweeps, index_by_groups; icontract invariant",
"C14": "raw-row model for every requested 'All' combination (positions in any order) and every crosstab cell; chunk-wise route",
"C15": "unique row ids as values (also beyond 2**53, next to columns of other dtypes); large groups up to 200 000 rows; n up to 66 000",
"C16": "exact rational variance; NumPy quantiles (level lists in any order); apply in three return shapes; multi-column apply; ints with group sums above 3e9",
"C17": "facade vs core vs pandas for 26 methods; by column/array/Series/level/mixed/level-and-column names in any order; key Series named like a value column; value columns not in label order; 5 index kinds; selection",
"C18": "grid of ~60 operations x arguments x 8 length and 5 index perturbations (incl. reset labels); the converse with equal-but-distinct indexes and re-encoded MultiIndexes; numpy-bool, nullable and Arrow boolean masks; temporal values",
"C19": "SHA-1 of buffers + container structure + names; scribble over every writable result handle and over the result's index / column names; repeat call; collections and renamed keys",
"C20": "threads 1..8 incl. more threads than elements and the default thread choice at its real switch-over sizes (2M/4M/6M elements); exhaustive boolean frames to 3x4; bit-width switches at 8/16/32; bin-edge values",
}
rows = []
for i in range(1, 21):
    pid = f"C{i:02d}"
    e = json.load(open(os.path.join(ROOT, "evidence", pid + ".json")))
    c = e["coverage"]
    rows.append(f"| {pid} | {c['evaluations']:,} | {c['distinct_nontrivial']:,} | {e['wall_s']:.0f} s | {NOTES[pid]} |")
p = os.path.join(ROOT, "DESIGN.md")
s = open(p).read()
pat = re.compile(r"(\| check \| evaluations \(quick\) \| distinct non-trivial \| wall \| as built \(beyond the plan below\) \|\n\|---\|---\|---\|---\|---\|\n)(?:\| C\d\d \|.*\n)+")
assert pat.search(s)
s = pat.sub(lambda m: m.group(1) + "\n".join(rows) + "\n", s)
open(p, "w").write(s)
print("as-built table regenerated from", len(rows), "evidence files")
