#!/bin/bash
# run the repo test-suite of a tree in parallel partitions, each with a fresh private numba cache
TREE=$1; OUT=$2; mkdir -p $OUT; cd $TREE
i=0
for f in tests/test_ema.py tests/test_nanops.py tests/test_ema_grouped.py tests/test_util.py tests/test_groupby/test_multikey_sorting.py tests/test_groupby/test_by_level_processing.py tests/test_groupby/test_ema.py tests/test_groupby/test_polars_non_reduce.py tests/test_groupby/test_group_indexers.py tests/test_groupby/test_factorization.py "tests/test_groupby/test_core.py -k test_basic" "tests/test_groupby/test_core.py -k not\ test_basic" tests/test_groupby/test_chunked_group_keys.py tests/test_groupby/test_api.py tests/test_groupby/test_mask_indexing.py tests/test_groupby/test_rolling_mask.py tests/test_groupby/test_timezone_aware.py tests/test_groupby/test_apply_quantile.py tests/test_groupby/test_numba.py; do
  i=$((i+1))
  ( export NUMBA_CACHE_DIR=$OUT/nbc$i PYTHONPATH=$TREE; eval /venv/bin/python -m pytest -q -p no:cacheprovider --timeout=900 $f --junitxml=$OUT/j$i.xml > $OUT/log$i.txt 2>&1; rm -rf $OUT/nbc$i ) &
done
wait
python3 - $OUT <<'PY'
import sys, glob, json, xml.etree.ElementTree as ET
out=sys.argv[1]; b=json.load(open('/root/.vp/BASELINE.json')); sp=set(b['stable_pass']); af=set(b['always_fail'])
passed=set(); failed={}
for f in glob.glob(out+'/j*.xml'):
    for tc in ET.parse(f).iter('testcase'):
        name=tc.get('classname')+'::'+tc.get('name')
        bad=[x for x in tc if x.tag in('failure','error')]
        if bad: failed[name]=bad[0].get('message','')[:160]
        elif not [x for x in tc if x.tag=='skipped']: passed.add(name)
print('passed',len(passed),'failed',len(failed))
reg=[n for n in failed if n in sp]; print('REGRESSIONS vs stable_pass:',len(reg))
for n in reg[:40]: print('  ',n,'=>',failed[n])
print('missing stable_pass (not run/passed):', len(sp-passed-set(failed)))
print('newly passing always_fail:', len([n for n in af if n in passed]))
PY
