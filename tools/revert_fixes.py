#!/usr/bin/env python3
"""Mutation validation by reverting fixes: for every fixed finding, revert its commit on a scratch copy of /repo and run the quick
checks of the properties it names against that copy (GBV_REPO); the check must report a VIOLATION.  Writes
revert_results.json (per finding/property: exit code, violation signatures, smallest failing case) in the current directory."""
import json, os, shutil, subprocess, sys, tempfile

ROOT = os.path.dirname(os.path.dirname(os.path.abspath(__file__)))
REPO = os.environ.get("VP_RUN_REPO") or "/repo"
only = set(sys.argv[1:])
kf = json.load(open(os.path.join(ROOT, "known_findings.json")))["findings"]
out_path = os.path.join(os.getcwd(), "revert_results.json")
results = json.load(open(out_path)) if os.path.exists(out_path) else {}
for f in kf:
    if f["status"] != "fixed" or not f.get("commit"):
        continue
    if only and f["id"] not in only:
        continue
    work = tempfile.mkdtemp(prefix="gbv_revert_", dir="/root/scratch" if os.path.isdir("/root/scratch") else None)
    try:
        subprocess.run(["git", "-C", "/repo", "worktree", "add", "-f", "--detach", work, "HEAD"], check=True, capture_output=True)
        r = subprocess.run(["git", "-C", work, "revert", "--no-commit", f["commit"]], capture_output=True, text=True)
        if r.returncode != 0:
            results[f["id"]] = {"revert": "conflict", "detail": (r.stdout + r.stderr)[-400:]}
            print(f["id"], "revert conflict", flush=True)
            continue
        for prop in f["properties"]:
            key = f"{f['id']}:{prop}"
            if key in results and results[key].get("rc") is not None:
                continue
            env = dict(os.environ, GBV_REPO=work)
            shutil.rmtree(os.path.join(ROOT, "replays", prop), ignore_errors=True)
            p = subprocess.run([os.path.join(ROOT, "check"), prop, "quick"], env=env, capture_output=True, text=True, cwd=ROOT)
            sigs = [l.strip()[:300] for l in p.stdout.splitlines() if l.strip().startswith("violation [")]
            wit = None
            rdir = os.path.join(ROOT, "replays", prop)
            if os.path.isdir(rdir):
                cands = []
                for fn in os.listdir(rdir):
                    try:
                        rec = json.load(open(os.path.join(rdir, fn)))
                        cands.append((len(json.dumps(rec.get("case"))), rec))
                    except Exception:
                        pass
                if cands:
                    wit = min(cands, key=lambda t: t[0])[1]
            results[key] = {"rc": p.returncode, "n_sigs": len(sigs), "sigs": sigs[:6], "witness": wit and {"monitor": wit.get("monitor"), "sig": wit.get("sig"), "case": wit.get("case")}}
            print(key, "rc=", p.returncode, "sigs=", len(sigs), sigs[:1], flush=True)
            json.dump(results, open(out_path, "w"), indent=1, default=str)
    finally:
        subprocess.run(["git", "-C", "/repo", "worktree", "remove", "--force", work], capture_output=True)
        shutil.rmtree(work, ignore_errors=True)
json.dump(results, open(out_path, "w"), indent=1, default=str)
caught = sum(1 for k, v in results.items() if isinstance(v, dict) and v.get("rc") == 1)
print("caught", caught, "of", sum(1 for v in results.values() if isinstance(v, dict) and "rc" in v))
