READY = ["C01"]
