#!/usr/bin/env python3
"""regenerate the generated tables of DESIGN.md (§7.1, §7.2 and the seeded-defect table of §8) from known_findings.json and seeded/*/meta.json"""
import glob, json, os, re
ROOT = os.path.dirname(os.path.dirname(os.path.abspath(__file__)))
kf = json.load(open(os.path.join(ROOT, "known_findings.json")))["findings"]
s = open(os.path.join(ROOT, "DESIGN.md")).read()
fixed = [f for f in kf if f["status"] == "fixed"]
opened = [f for f in kf if f["status"] == "open"]
t1 = "| id | properties | commit | what failed |\n|---|---|---|---|\n" + "\n".join(
    f"| {f['id']} | {', '.join(f['properties'])} | `{f['commit']}` | {f['what_fails']} |" for f in fixed)
t2 = "| id | properties | what fails | mechanism key | why it is not repaired |\n|---|---|---|---|---|\n" + "\n".join(
    f"| {f['id']} | {', '.join(f['properties'])} | {f['what_fails']} | {f['mechanism']} | {f['why_not_fixed']} |" for f in opened)
s = re.sub(r"### 7\.1 Fixed \(\d+ commits\)\n\n\| id \|.*?\n\n### 7\.2", f"### 7.1 Fixed ({len(fixed)} commits)\n\n{t1}\n\n### 7.2", s, flags=re.S)
s = re.sub(r"### 7\.2 Open known findings \(\d+\)(.*?)\| id \| properties \| what fails.*?\n\nShares of", lambda m: f"### 7.2 Open known findings ({len(opened)})" + m.group(1) + t2 + "\n\nShares of", s, flags=re.S)
rows = []
for d in sorted(glob.glob(os.path.join(ROOT, "seeded", "*", "meta.json"))):
    m = json.load(open(d))
    res = m.get("checks_quick_with_patch_applied", {})
    first = m.get("checks_quick_first_evaluation", {})
    def fmt(k, v):
        t = f"{k}: {'VIOLATION' if v['rc'] == 1 else ('held (miss)' if v['rc'] == 0 else 'rc=' + str(v['rc']))}"
        if k in first and first[k] != v["rc"]:
            t += f" (first evaluation: {'held - a miss' if first[k] == 0 else ('inconclusive' if first[k] == 2 else first[k])})"
        return t
    rows.append(f"| `{m['name']}` | {m['breaks_property']} | " + "; ".join(fmt(k, v) for k, v in res.items()) + " |")
t3 = "| seeded change | property | quick checks with the patch applied |\n|---|---|---|\n" + "\n".join(rows)
s = re.sub(r"\| seeded change \| property \| quick checks with the patch applied \|\n\|---\|---\|---\|\n.*?\n\n", t3 + "\n\n", s, count=1, flags=re.S)
open(os.path.join(ROOT, "DESIGN.md"), "w").write(s)
print(len(fixed), "fixed,", len(opened), "open,", len(rows), "seeded")
