#!/usr/bin/env python3
"""tools/eval_seed.py <name> <src_out_dir> <seed_worktree> <property> <check ids...>
Confirm a seeded defect (demo passes on /repo, fails on the seeded tree; the agent's test run has no stable_pass regression),
run the named checks against /repo with the patch applied (then undo), and store patch/demo/meta under /verif/seeded/<name>/."""
import glob, json, os, shutil, subprocess, sys, xml.etree.ElementTree as ET

name, src, wt, prop, *checks = sys.argv[1:]
ROOT = "/verif"
made_wt = False
if not os.path.isdir(wt):
    # re-evaluation of a stored seed: rebuild the seeded tree from the stored patch
    wt = f"/root/scratch/seedwt_{name}"
    subprocess.run(["git", "-C", "/repo", "worktree", "add", "-f", "--detach", wt, "HEAD"], check=True, capture_output=True)
    subprocess.run(["git", "-C", wt, "apply", os.path.join(ROOT, "seeded", name, "patch.diff")], check=True)
    made_wt = True
dst = os.path.join(ROOT, "seeded", name)
os.makedirs(dst, exist_ok=True)
for fn in ("patch.diff", "demo.py", "notes.md"):
    if os.path.exists(os.path.join(src, fn)):
        shutil.copy(os.path.join(src, fn), os.path.join(dst, fn))
old_meta = json.load(open(os.path.join(dst, "meta.json"))) if os.path.exists(os.path.join(dst, "meta.json")) else {}
meta = {"name": name, "breaks_property": prop, "source": "independent sub-agent given only the property text and a scratch worktree"}
# 1. the agent's test run
b = json.load(open("/root/.vp/BASELINE.json")); sp = set(b["stable_pass"])
passed, failed = set(), {}
for f in glob.glob(os.path.join(src, "tests", "j*.xml")):
    for tc in ET.parse(f).iter("testcase"):
        n = tc.get("classname") + "::" + tc.get("name")
        if [x for x in tc if x.tag in ("failure", "error")]:
            failed[n] = 1
        elif not [x for x in tc if x.tag == "skipped"]:
            passed.add(n)
reg = [n for n in failed if n in sp]
if not passed and old_meta.get("suite_on_seeded_tree"):
    meta["suite_on_seeded_tree"] = old_meta["suite_on_seeded_tree"]
    reg = []
else:
  meta["suite_on_seeded_tree"] = {"passed": len(passed), "failed": len(failed), "stable_pass_regressions": reg, "stable_pass_missing": len(sp - passed - set(failed))}
if reg and all("test_multi_key_large_data" in r for r in reg):
    env = dict(os.environ, NUMBA_CACHE_DIR=f"/root/scratch/nb_seed_{name}")
    r = subprocess.run(["/venv/bin/python", "-m", "pytest", "-q", "-p", "no:cacheprovider", "tests/test_groupby/test_core.py", "-k", "test_multi_key_large_data"], cwd=wt, env=env, capture_output=True, text=True)
    meta["suite_on_seeded_tree"]["timing_test_rerun_alone"] = r.stdout.strip().splitlines()[-1] if r.stdout.strip() else r.stderr[-200:]
    shutil.rmtree(env["NUMBA_CACHE_DIR"], ignore_errors=True)
# 2. demo on both trees
def demo(tree):
    cache = f"/root/scratch/nb_demo_{name}"
    shutil.rmtree(cache, ignore_errors=True)
    env = dict(os.environ, NUMBA_CACHE_DIR=cache, PYTHONPATH=tree)
    try:
        r = subprocess.run(["/venv/bin/python", os.path.join(dst, "demo.py")], env=env, capture_output=True, text=True, timeout=1800, cwd=dst)
        out = (r.returncode, (r.stdout + r.stderr).strip().splitlines()[-1:] )
    except subprocess.TimeoutExpired:
        out = ("timeout", [])
    shutil.rmtree(cache, ignore_errors=True)
    return out
assert subprocess.run(["git", "-C", "/repo", "status", "--porcelain"], capture_output=True, text=True).stdout.strip() == "", "/repo not clean"
meta["demo_on_unmodified_repo"] = demo("/repo")
meta["demo_on_seeded_tree"] = demo(wt)
# 3. the checks against /repo + patch
res = {}
# the checks run against a scratch worktree holding /repo's HEAD + the patch (GBV_REPO): equivalent to applying the patch in /repo
# and undoing it, but it cannot leak into other runs that are using /repo at the same time
cw = f"/root/scratch/seedcheck_{name}"
subprocess.run(["git", "-C", "/repo", "worktree", "add", "-f", "--detach", cw, "HEAD"], check=True, capture_output=True)
subprocess.run(["git", "-C", cw, "apply", os.path.join(dst, "patch.diff")], check=True)
try:
    for c in checks:
        ev = os.path.join(ROOT, "evidence", f"{c}.json")
        keep = open(ev).read() if os.path.exists(ev) else None
        p = subprocess.run([os.path.join(ROOT, "check"), c, "quick"], capture_output=True, text=True, cwd=ROOT, env=dict(os.environ, GBV_REPO=cw))
        if keep is not None:
            open(ev, "w").write(keep)  # evidence files describe runs against /repo only
        sigs = [l.strip()[:260] for l in p.stdout.splitlines() if l.strip().startswith("violation [")]
        res[c] = {"rc": p.returncode, "n_signatures": len(sigs), "first": sigs[:3]}
        print(name, c, "rc=", p.returncode, sigs[:2], flush=True)
finally:
    subprocess.run(["git", "-C", "/repo", "worktree", "remove", "--force", cw], capture_output=True)
if old_meta.get("checks_quick_with_patch_applied") and old_meta["checks_quick_with_patch_applied"] != res:
    meta["checks_quick_first_evaluation"] = old_meta.get("checks_quick_first_evaluation") or {k: v["rc"] for k, v in old_meta["checks_quick_with_patch_applied"].items()}
meta["checks_quick_with_patch_applied"] = res
if made_wt:
    subprocess.run(["git", "-C", "/repo", "worktree", "remove", "--force", wt], capture_output=True)
meta["what_it_needs"] = open(os.path.join(dst, "notes.md")).read()[:1500] if os.path.exists(os.path.join(dst, "notes.md")) else ""
json.dump(meta, open(os.path.join(dst, "meta.json"), "w"), indent=1)
print(json.dumps({k: meta[k] for k in ("demo_on_unmodified_repo", "demo_on_seeded_tree", "suite_on_seeded_tree")}, default=str)[:600])
